//go:build verif

// Contracts for package bt, read by /verif's gobtvc (contract-based deductive verification).
// This file is comment-only; it is compiled only with -tags verif and adds no code.

package bt

//@ func bt.VarInt.Length
//@   ensures[C01.varint_len] (= result (ite (< v 253) 1 (ite (< v 65536) 3 (ite (< v 4294967296) 5 9))))

//@ func bt.VarInt.UpperLimitInc
//@   ensures[C10.upper_inc] (=> (< v 18446744073709551615) (= result (- (spec.vlen (+ v 1)) (spec.vlen v))))
//@   ensures[C10.upper_inc_top] (=> (= v 18446744073709551615) (= result (- 1)))

//@ func bt.ReverseBytes
//@   bytes array
//@   fresh result
//@   ensures[C01.rev_len] (= (len result) (len a))
//@   ensures[C01.rev_content] (forall ((k Int)) (=> (and (<= 0 k) (< k (len a))) (= (at result k) (old (at a (- (- (len a) 1) k))))))
//@   ensures[C01.rev_input_unchanged] (forall ((k Int)) (=> (and (<= 0 k) (< k (len a))) (= (at a k) (old (at a k)))))
//@   loop 0 invariant (and (<= 0 i) (= j (- (- (len a) 1) i)) (<= i (+ j 1)))
//@   loop 0 invariant (forall ((k Int)) (=> (and (<= 0 k) (< k i)) (and (= (at tmp k) (old (at a (- (- (len a) 1) k)))) (= (at tmp (- (- (len a) 1) k)) (old (at a k))))))
//@   loop 0 invariant (forall ((k Int)) (=> (and (<= i k) (<= k j)) (= (at tmp k) (old (at a k)))))
//@   loop 0 invariant (forall ((k Int)) (=> (and (<= 0 k) (< k (len a))) (= (at a k) (old (at a k)))))
//@   loop 0 decreases (- j i)
