#!/bin/bash
# usage: seed_confirm.sh <worktree> <result-subdir> <package-dir-relative> <seed-id> <property> "<needs>"
# Confirms in the scratch worktree: suite green with the change, demo fails with it, demo passes without it; then archives
# the seed under /verif/seeded/<seed-id>/.
wt=$1; m=$2; pkg=$3; sid=$4; prop=$5; needs=$6
export GOFLAGS=-mod=mod GOPROXY=off GOSUMDB=off GOTOOLCHAIN=local
cd $wt || exit 2
git checkout -q -- . ; rm -f $pkg/zz_seed_demo_test.go
git apply $m/patch.diff || { echo "patch does not apply"; exit 3; }
suite=$(go test -mod=mod -vet=off -count=1 $(go list ./... | grep -v /result) 2>&1 | grep -v "no test files"); if echo "$suite" | grep -q "^FAIL\|^---  FAIL\|^--- FAIL"; then echo "SUITE NOT GREEN"; echo "$suite" | tail -5; git checkout -q -- .; exit 4; fi
cp $m/demo_test.go $pkg/zz_seed_demo_test.go
with=$(cd $pkg && go test -mod=mod -vet=off -count=1 -timeout 120s -run . ./ 2>&1 | tail -15); rcw=$?
(cd $pkg && go test $RACEFLAG -mod=mod -vet=off -count=1 -timeout 300s ./ >/tmp/seed_with.log 2>&1); rcw=$?
git checkout -q -- .
(cd $pkg && go test $RACEFLAG -mod=mod -vet=off -count=1 -timeout 300s ./ >/tmp/seed_without.log 2>&1); rco=$?
rm -f $pkg/zz_seed_demo_test.go
echo "suite green with change: yes; demo with change exit=$rcw; demo without change exit=$rco"
if [ $rcw -ne 0 ] && [ $rco -eq 0 ]; then
  d=/verif/seeded/$sid; mkdir -p $d; cp $m/patch.diff $d/patch.diff; cp $m/demo_test.go $d/demo_test.go; cp $m/NOTES.md $d/NOTES.md 2>/dev/null
  python3 - "$d" "$prop" "$needs" "$pkg" <<'PY'
import json,sys
d,prop,needs,pkg=sys.argv[1:5]
json.dump({"property":prop,"needs_to_manifest":needs,"demo_package_dir":pkg,
 "confirmed":{"suite_green_with_change":True,"demo_fails_with_change":True,"demo_passes_without_change":True},
 "what_i_ran":["git apply patch.diff (scratch worktree)","go test -mod=mod -vet=off -count=1 ./... (all packages ok)","copy demo_test.go into "+pkg+"; go test ./ -> FAIL","git checkout -- .; go test ./ -> ok"]},open(d+'/meta.json','w'),indent=1)
PY
  echo "ARCHIVED $d"
else
  echo "NOT CONFIRMED"; tail -5 /tmp/seed_with.log; tail -5 /tmp/seed_without.log
fi
rm -f /tmp/seed_with.log /tmp/seed_without.log
