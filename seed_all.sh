#!/bin/bash
# re-evaluate every archived seeded change against the check of its property (meta.json: property, caught_by)
cd /verif
for d in seeded/*/; do
  id=$(basename $d)
  prop=$(python3 -c "import json;m=json.load(open('$d/meta.json'));print(' '.join([m.get('detected_by',{}).get('check') or m['property']]))" 2>/dev/null)
  [ -z "$prop" ] && prop=${id%%-*}
  res=$(./seed_eval.sh $PWD/$d/patch.diff $prop 2>&1)
  if echo "$res" | grep -q "VIOLATION"; then echo "$id: DETECTED ($(echo "$res" | grep -m1 'obligation ' | sed 's/^ *//' | cut -c1-110))"; else echo "$id: MISSED"; echo "$res" | head -5; fi
done
