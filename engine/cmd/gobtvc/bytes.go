package main

import (
	"fmt"
	"go/types"
	"strings"
)

// Byte strings as values ("token view", DESIGN.md 3.2). Functions whose contract says `bytes token` are encoded with a
// ghost heap $bytes : slice header -> B that tracks the CONTENT of byte slices as terms of an algebra (cat, le32, vi …).
// The array model stays in place for everything else (lengths, indices, nil checks): the two views are tied by
//   blen($bytes[s]) = len(s)        (representation invariant, asserted wherever a byte slice enters the function)
//   s[i] read        = bat($bytes[s], i)
// The view ignores sharing between slice headers (DESIGN.md 3.2, side condition): a function that stores single bytes
// into a slice (b[i] = x) cannot be encoded in token mode and is reported as unsupported.

const bytesPrelude = `(declare-sort B 0)
(declare-fun blen (B) Int)
(declare-const beps B)
(declare-fun bcat (B B) B)
(declare-fun b1 (Int) B)
(declare-fun le16 (Int) B)
(declare-fun le32 (Int) B)
(declare-fun le64 (Int) B)
(declare-fun ule16 (B) Int)
(declare-fun ule32 (B) Int)
(declare-fun ule64 (B) Int)
(declare-fun bzeros (Int) B)
(declare-fun brev (B) B)
(declare-fun bsub (B Int Int) B)
(declare-fun bat (B Int) Int)
(declare-fun bstr (Str) B)
(declare-fun bhex (B) Str)
(declare-fun bhex2 (Int) B)
(declare-fun bunhex (Str) B)
(declare-fun hexok (Str) Bool)
(declare-fun b58dec (Str) B)
(declare-fun b58enc (B) Str)
(declare-fun bsha256 (B) B)
(declare-fun bsha256d (B) B)
(declare-fun bsha1 (B) B)
(declare-fun bripemd160 (B) B)
(declare-fun bhash160 (B) B)
`

// bytesAxioms: the theory of byte strings. Only functions verified in token mode (or whose contract asks for it with
// `opt bytes-axioms 1`) get it: elsewhere byte-string terms coming from callee contracts are uninterpreted, which is all
// that equational reasoning through them needs, and the quantified axioms only perturb the solver.
const bytesAxioms = `(assert (= (blen beps) 0))
(assert (forall ((a B)) (! (>= (blen a) 0) :pattern ((blen a)))))
(assert (forall ((a B)) (! (=> (= (blen a) 0) (= a beps)) :pattern ((blen a)))))
(assert (forall ((a B) (b B)) (! (= (blen (bcat a b)) (+ (blen a) (blen b))) :pattern ((bcat a b)))))
(assert (forall ((a B)) (! (= (bcat beps a) a) :pattern ((bcat beps a)))))
(assert (forall ((a B)) (! (= (bcat a beps) a) :pattern ((bcat a beps)))))
(assert (forall ((a B) (b B) (c B)) (! (= (bcat (bcat a b) c) (bcat a (bcat b c))) :pattern ((bcat (bcat a b) c)))))
(assert (forall ((x Int)) (! (= (blen (b1 x)) 1) :pattern ((b1 x)))))
(assert (forall ((x Int)) (! (= (blen (le16 x)) 2) :pattern ((le16 x)))))
(assert (forall ((x Int)) (! (= (blen (le32 x)) 4) :pattern ((le32 x)))))
(assert (forall ((x Int)) (! (= (blen (le64 x)) 8) :pattern ((le64 x)))))
(assert (forall ((n Int)) (! (=> (>= n 0) (= (blen (bzeros n)) n)) :pattern ((bzeros n)))))
(assert (forall ((a B)) (! (= (blen (brev a)) (blen a)) :pattern ((brev a)))))
(assert (forall ((a B)) (! (= (brev (brev a)) a) :pattern ((brev (brev a))))))
(assert (forall ((a B)) (! (= (blen (bsha256 a)) 32) :pattern ((bsha256 a)))))
(assert (forall ((a B)) (! (= (blen (bsha256d a)) 32) :pattern ((bsha256d a)))))
(assert (forall ((a B)) (! (= (blen (bsha1 a)) 20) :pattern ((bsha1 a)))))
(assert (forall ((a B)) (! (= (blen (bripemd160 a)) 20) :pattern ((bripemd160 a)))))
(assert (forall ((a B)) (! (= (blen (bhash160 a)) 20) :pattern ((bhash160 a)))))
(assert (forall ((a B)) (! (= (strlen (bhex a)) (* 2 (blen a))) :pattern ((bhex a)))))
(assert (forall ((s Str)) (! (= (blen (bstr s)) (strlen s)) :pattern ((bstr s)))))
(assert (forall ((a B)) (! (and (= (bunhex (bhex a)) a) (hexok (bhex a))) :pattern ((bhex a)))))
(assert (forall ((a B)) (! (= (b58dec (b58enc a)) a) :pattern ((b58enc a)))))
(assert (forall ((a B) (lo Int) (hi Int)) (! (=> (and (<= 0 lo) (<= lo hi) (<= hi (blen a))) (= (blen (bsub a lo hi)) (- hi lo))) :pattern ((bsub a lo hi)))))
(assert (forall ((a B) (hi Int)) (! (=> (= hi (blen a)) (= (bsub a 0 hi) a)) :pattern ((bsub a 0 hi)))))
(assert (forall ((a B) (b B) (n Int)) (! (=> (= n (blen a)) (= (bsub (bcat a b) 0 n) a)) :pattern ((bsub (bcat a b) 0 n)))))
(assert (forall ((a B) (b B) (n Int) (m Int)) (! (=> (and (= n (blen a)) (= m (+ (blen a) (blen b)))) (= (bsub (bcat a b) n m) b)) :pattern ((bsub (bcat a b) n m)))))
(assert (forall ((a B) (lo Int)) (! (=> (and (<= 0 lo) (<= lo (blen a))) (= (bsub a lo lo) beps)) :pattern ((bsub a lo lo)))))
(assert (forall ((a B) (lo Int) (hi Int) (i Int) (j Int)) (! (=> (and (<= 0 lo) (<= lo hi) (<= hi (blen a)) (<= 0 i) (<= i j) (<= j (- hi lo))) (= (bsub (bsub a lo hi) i j) (bsub a (+ lo i) (+ lo j)))) :pattern ((bsub (bsub a lo hi) i j)))))
(assert (= (bzeros 1) (b1 0)))
(assert (forall ((x Int)) (! (=> (and (<= 0 x) (< x 65536)) (= (ule16 (le16 x)) x)) :pattern ((le16 x)))))
(assert (forall ((x Int)) (! (=> (and (<= 0 x) (< x 4294967296)) (= (ule32 (le32 x)) x)) :pattern ((le32 x)))))
(assert (forall ((x Int)) (! (=> (and (<= 0 x) (< x 18446744073709551616)) (= (ule64 (le64 x)) x)) :pattern ((le64 x)))))
(assert (forall ((a B)) (! (and (<= 0 (ule16 a)) (< (ule16 a) 65536) (=> (= (blen a) 2) (= (le16 (ule16 a)) a))) :pattern ((ule16 a)))))
(assert (forall ((a B)) (! (and (<= 0 (ule32 a)) (< (ule32 a) 4294967296) (=> (= (blen a) 4) (= (le32 (ule32 a)) a))) :pattern ((ule32 a)))))
(assert (forall ((a B)) (! (and (<= 0 (ule64 a)) (< (ule64 a) 18446744073709551616) (=> (= (blen a) 8) (= (le64 (ule64 a)) a))) :pattern ((ule64 a)))))
(assert (forall ((a B) (i Int)) (! (and (<= 0 (bat a i)) (<= (bat a i) 255)) :pattern ((bat a i)))))
(assert (forall ((x Int)) (! (=> (and (<= 0 x) (<= x 255)) (= (bat (b1 x) 0) x)) :pattern ((b1 x)))))
(assert (forall ((a B) (b B) (i Int)) (! (= (bat (bcat a b) i) (ite (< i (blen a)) (bat a i) (bat b (- i (blen a))))) :pattern ((bat (bcat a b) i)))))
(assert (forall ((a B)) (! (=> (= (blen a) 1) (= a (b1 (bat a 0)))) :pattern ((bat a 0)))))
(assert (forall ((a B) (lo Int) (hi Int) (i Int)) (! (=> (and (<= 0 lo) (<= lo hi) (<= hi (blen a)) (<= 0 i) (< i (- hi lo))) (= (bat (bsub a lo hi) i) (bat a (+ lo i)))) :pattern ((bat (bsub a lo hi) i)))))
(assert (forall ((a B)) (! (=> (= (blen a) 4) (= a (bcat (b1 (bat a 0)) (bcat (b1 (bat a 1)) (bcat (b1 (bat a 2)) (b1 (bat a 3))))))) :pattern ((bat a 3)))))
(assert (forall ((n Int) (lo Int) (hi Int)) (! (=> (and (<= 0 lo) (<= lo hi) (<= hi n)) (= (bsub (bzeros n) lo hi) (bzeros (- hi lo)))) :pattern ((bsub (bzeros n) lo hi)))))
(assert (= (bzeros 0) beps))
`

// byte-wise definitions of the little-endian encodings: only for functions that build or inspect the single bytes
// (`opt bytes-le-defs 1`)
const bytesLEDefs = `(assert (forall ((x Int)) (! (= (le16 x) (bcat (b1 (mod (div x 1) 256)) (b1 (mod (div x 256) 256)))) :pattern ((le16 x)))))
(assert (forall ((x Int)) (! (= (le32 x) (bcat (b1 (mod (div x 1) 256)) (bcat (b1 (mod (div x 256) 256)) (bcat (b1 (mod (div x 65536) 256)) (b1 (mod (div x 16777216) 256)))))) :pattern ((le32 x)))))
(assert (forall ((x Int)) (! (= (le64 x) (bcat (b1 (mod (div x 1) 256)) (bcat (b1 (mod (div x 256) 256)) (bcat (b1 (mod (div x 65536) 256)) (bcat (b1 (mod (div x 16777216) 256)) (bcat (b1 (mod (div x 4294967296) 256)) (bcat (b1 (mod (div x 1099511627776) 256)) (bcat (b1 (mod (div x 281474976710656) 256)) (b1 (mod (div x 72057594037927936) 256)))))))))) :pattern ((le64 x)))))
`

func isByteSlice(t types.Type) bool {
	s, ok := under(t).(*types.Slice)
	return ok && typeKey(s.Elem()) == "uint8"
}

func (e *Enc) bytesHeap(h *Heap) string {
	e.needB = true
	return e.heapGet(h, "$bytes", "B")
}

// tokBytes: content of byte slice s (an SMT Slice term) in heap h.
func (e *Enc) tokBytes(h *Heap, s string) string {
	return e.nameTerm("bv", "B", e.sel(e.bytesHeap(h), s))
}

// nameTerm gives a long term a name (a fresh constant defined equal to it) so that it is not copied into every term
// built from it.
func (e *Enc) nameTerm(prefix, sort, t string) string {
	if len(t) <= 120 {
		return t
	}
	if e.named == nil {
		e.named = map[string]string{}
	}
	if c, ok := e.named[t]; ok {
		return c
	}
	c := e.fresh(prefix, sort)
	e.assertDefn(c, t)
	e.named[t] = c
	return c
}

func (e *Enc) setBytes(h *Heap, s, content string) {
	content = e.nameTerm("bc", "B", content) // stores carry a name, not the text of a long content term
	h.m["$bytes"] = app("store", e.bytesHeap(h), s, content)
}

// byteSliceEnters: a byte slice value becomes visible to the function (parameter, loaded cell, call result): its content
// has its length.
func (e *Enc) byteSliceEnters(h *Heap, v Val, t types.Type, guard string) {
	if !e.token || !isByteSlice(t) || v.S != "Slice" {
		return
	}
	e.assert(implies(guard, app("=", app("blen", e.tokBytes(h, v.T)), app("slen", v.T))))
}

// bytesExpand: content of slice s read from the byte heap, for lengths up to max (array-mode bridge: the definition of
// the abstraction function for short slices).
func (e *Enc) bytesExpand(h *Heap, s string, max int) string {
	e.needB = true
	hp := e.heapGet(h, "T:uint8", "Int")
	term := "beps"
	// build cat(b1(c0), cat(b1(c1), ...)) for each possible length, selected by ite on len
	var byLen []string
	for n := 0; n <= max; n++ {
		t := "beps"
		for i := n - 1; i >= 0; i-- {
			c := e.sel(hp, app("elem", app("sarr", s), app("+", app("soff", s), ilit(int64(i)))))
			if t == "beps" {
				t = app("b1", c)
			} else {
				t = app("bcat", app("b1", c), t)
			}
		}
		byLen = append(byLen, t)
	}
	term = app("select", e.bytesHeap(h), s) // longer than the bound: not bridged, the abstract content
	for n := max; n >= 0; n-- {
		term = fmt.Sprintf("(ite (= (slen %s) %d) %s %s)", s, n, byLen[n], term)
	}
	return term
}

var bOps = map[string]string{
	"bcat": "B", "b1": "B", "le16": "B", "le32": "B", "le64": "B", "bzeros": "B", "brev": "B", "bsub": "B", "bstr": "B",
	"bsha256": "B", "bsha256d": "B", "bsha1": "B", "bripemd160": "B", "bhash160": "B",
	"bunhex": "B", "bhex2": "B", "b58dec": "B", "b58enc": "Str", "hexok": "Bool", "blen": "Int", "ule16": "Int", "ule32": "Int", "ule64": "Int", "bat": "Int", "bhex": "Str",
}

func isBTerm(s string) bool { return strings.HasPrefix(s, "(b") || s == "beps" }
