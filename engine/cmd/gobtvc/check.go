package main

import (
	"sync"
	"encoding/json"
	"flag"
	"fmt"
	"os"
	"path/filepath"
	"regexp"
	"sort"
	"strconv"
	"strings"
	"time"
)

// Cone describes which obligations decide a property.
type Cone struct {
	ID      string   `json:"id"`
	Funcs   []string `json:"funcs"`   // regexps over function names
	Exclude []string `json:"exclude"` // regexps over function names
	Classes []string `json:"classes"` // obligation classes counted; empty = all
	Tags    []string `json:"tags"`    // for class post: only ensures whose tag starts with one of these (plus untagged)
	Level   string   `json:"level"`
	Note    string   `json:"note"`
	Bounded []BoundedCheck `json:"bounded"`
	SupportFuncs   []string `json:"support_funcs"`   // regexps: functions whose supporting contract obligations count too
	SupportClasses []string `json:"support_classes"` // the classes counted only for support_funcs
	WatchKeys string       `json:"watch_keys"` // regexp over heap keys: writes to pre-existing cells of these keys must be declared
}

type BoundedCheck struct {
	Name string `json:"name"`
	Cmd  string `json:"cmd"`
	What string `json:"what"`
}

type Baseline struct {
	Unclaimed map[string]string `json:"unclaimed"` // obligation name -> reason it is not claimed
	MinObligations int          `json:"min_obligations"`
	// Hints: solver that decided the obligation when the baseline was taken (only where it was not the first in the
	// default order); tried first by later runs. Purely a scheduling hint.
	Hints map[string]string `json:"hints,omitempty"`
}

type KnownFinding struct {
	Property   string `json:"property"`
	Obligation string `json:"obligation"`
	What       string `json:"what"`
	Witness    string `json:"witness"`
}

type KnownFile struct {
	Findings []KnownFinding `json:"findings"`
	Fixed    []string       `json:"fixed"`
}

func loadCones() map[string]*Cone {
	b, err := os.ReadFile(filepath.Join(verifDir, "cones.json"))
	if err != nil {
		fmt.Fprintln(os.Stderr, "gobtvc: cones.json:", err)
		os.Exit(2)
	}
	var cs []*Cone
	if err := json.Unmarshal(b, &cs); err != nil {
		fmt.Fprintln(os.Stderr, "gobtvc: cones.json:", err)
		os.Exit(2)
	}
	m := map[string]*Cone{}
	for _, c := range cs {
		m[c.ID] = c
	}
	return m
}

func loadBaseline(id string) *Baseline {
	bl := &Baseline{Unclaimed: map[string]string{}}
	b, err := os.ReadFile(filepath.Join(verifDir, "baseline", id+".json"))
	if err == nil {
		json.Unmarshal(b, bl)
	}
	if bl.Unclaimed == nil {
		bl.Unclaimed = map[string]string{}
	}
	return bl
}

func loadKnown() *KnownFile {
	k := &KnownFile{}
	b, err := os.ReadFile(filepath.Join(verifDir, "known_findings.json"))
	if err == nil {
		json.Unmarshal(b, k)
	}
	return k
}

func matchAny(pats []string, s string) bool {
	for _, p := range pats {
		if regexp.MustCompile(p).MatchString(s) {
			return true
		}
	}
	return false
}

func (c *Cone) wantsObl(o *Obligation) bool {
	if len(c.Classes) > 0 {
		ok := false
		for _, k := range c.Classes {
			if k == o.Class {
				ok = true
			}
		}
		if !ok && matchAny(c.SupportFuncs, o.Func) {
			for _, k := range c.SupportClasses {
				if k == o.Class {
					ok = true
				}
			}
		}
		if !ok {
			return false
		}
	}
	if o.Class == "post" && len(o.Props) > 0 {
		for _, p := range o.Props {
			if p == c.ID {
				return true
			}
		}
		return false
	}
	return true
}

type funcReport struct {
	Name        string   `json:"name"`
	Obligations int      `json:"obligations"`
	Discharged  int      `json:"discharged"`
	Contract    bool     `json:"has_contract"`
	Unsupported []string `json:"unsupported,omitempty"`
}

type checkRun struct {
	cone     *Cone
	results  []*Result
	funcs    []funcReport
	trusted  map[string]bool
	sources  []string
	bgOf     map[*Obligation]string
	bgLite   map[*Obligation]string
	wall     float64
	solverS  float64
	vacuity  []string
}

func runCone(w *World, cs *Contracts, cone *Cone, tier string, seed int, outDir string) *checkRun {
	run := &checkRun{cone: cone, trusted: map[string]bool{}, sources: cs.Sources, bgOf: map[*Obligation]string{}, bgLite: map[*Obligation]string{}}
	t0 := time.Now()
	os.MkdirAll(outDir, 0o755)
	type job struct {
		bg   string
		obls []*Obligation
	}
	var jobs []job
	type coverJob struct{ fn, bg string }
	var covers []coverJob
	opaqueInCone := map[string]bool{}
	fullBg := map[string]string{}
	var lastEnc *Enc
	defer func() { _ = lastEnc }()
	for _, n := range w.sortedFuncNames() {
		if !matchAny(cone.Funcs, n) || matchAny(cone.Exclude, n) {
			continue
		}
		e := newEnc(w, cs, w.Funcs[n])
		e.Encode()
		var obls []*Obligation
		for _, o := range e.obls {
			if cone.wantsObl(o) {
				obls = append(obls, o)
			}
		}
		if cone.WatchKeys != "" {
			// ground frame obligations from the syntactic write analysis: a function (with everything it calls) may
			// write pre-existing cells of a watched key only if its contract lists the key under `opt writes-existing`
			allowed := map[string]bool{}
			if e.ct != nil {
				for _, k := range strings.Fields(e.ct.Opts["writes-existing"]) {
					allowed[k] = true
				}
			}
			var ks []string
			for k := range w.WE[w.Funcs[n]] {
				ks = append(ks, k)
			}
			sort.Strings(ks)
			for _, k := range ks {
				if regexp.MustCompile(cone.WatchKeys).MatchString(k) {
					goal := "false"
					if allowed[k] {
						goal = "true"
					}
					obls = append(obls, &Obligation{Name: n + "#wexist:" + k, Func: n, Class: "wexist", Desc: k, Goal: goal})
				}
			}
		}
		if len(e.unsupported) > 0 {
			// the function could not be encoded under its contract (a name of the contract no longer exists, an
			// unmodelled construct): obligations after that point were never generated, so no class filter may hide
			// it - every cone that contains the function gets this one failing obligation
			obls = append(obls, &Obligation{Name: n + "#encode:unsupported", Func: n, Class: "wexist", Desc: e.unsupported[0], Goal: "false"})
		}
		bg := e.Background()
		for _, o := range obls {
			if o.Class == "wexist" {
				run.bgOf[o] = ""
				continue
			}
			run.bgOf[o] = e.BackgroundFor(o)
			if e.needB {
				// the same query without the quantified byte-string theory: used only to look for a model to replay when
				// the real query fails without one (a model of the weaker query counts only if it replays on the code)
				e.liteB = true
				run.bgLite[o] = e.BackgroundFor(o)
				e.liteB = false
			}
		}
		for t := range e.trustedUsed {
			run.trusted[t] = true
		}
		fr := funcReport{Name: n, Obligations: len(obls), Contract: e.ct != nil, Unsupported: e.unsupported}
		run.funcs = append(run.funcs, fr)
		if len(e.unsupported) > 0 {
			// a function the encoder cannot fully model yields no trusted "unsat": pose its obligations as failed
			for _, o := range obls {
				o.Goal = "false"
			}
		}
		jobs = append(jobs, job{bg, obls})
		fullBg[n] = bg
		for nm := range e.opaqueUsed {
			opaqueInCone[nm] = true
		}
		lastEnc = e
		// vacuity guard (every tier): everything assumed while encoding the function (preconditions, callee
		// postconditions, loop invariants, external models) must be jointly satisfiable
		if len(obls) > 0 {
			covers = append(covers, coverJob{n, bg})
		}
	}
	{
		var wg sync.WaitGroup
		var mu sync.Mutex
		sem0 := make(chan struct{}, 16)
		for _, cj := range covers {
			wg.Add(1)
			go func(cj coverJob) {
				defer wg.Done()
				sem0 <- struct{}{}
				defer func() { <-sem0 }()
				cover := &Obligation{Name: cj.fn + "#cover:background", Func: cj.fn, Class: "cover", Goal: "false"}
				r := solveOne(outDir, cj.bg, cover, "quick", 5, seed)
				if r.Status == "unsat" {
					mu.Lock()
					run.vacuity = append(run.vacuity, cj.fn+": the assumptions made while encoding this function are contradictory")
					mu.Unlock()
				}
			}(cj)
		}
		wg.Wait()
	}
	// facts about opaque spec functions used in this cone: proved from the definitions (everything expanded)
	if lastEnc != nil {
		var fobls []*Obligation
		fe := lastEnc
		fe.noFacts, fe.defineOpaque, fe.needB = true, true, true
		for _, f := range cs.Facts {
			used := false
			for _, m := range specRefRe.FindAllStringSubmatch(f.Body.String(), -1) {
				if opaqueInCone[m[1]] {
					used = true
				}
			}
			if !used {
				continue
			}
			o := &Obligation{Name: "fact#" + f.Name, Func: "fact", Class: "fact", Desc: f.Name, Goal: fe.factText(f)}
			if cone.wantsObl(o) {
				fobls = append(fobls, o)
			}
		}
		if len(fobls) > 0 {
			bg := fe.backgroundO(0, false, nil)
			for _, o := range fobls {
				run.bgOf[o] = bg
			}
			jobs = append(jobs, job{bg, fobls})
		}
		fe.noFacts, fe.defineOpaque = false, false
	}
	// solve everything in one parallel pool
	var all []*Obligation
	for _, j := range jobs {
		all = append(all, j.obls...)
	}
	res := make([]*Result, len(all))
	sem := make(chan struct{}, 16)
	done := make(chan int, len(all))
	budget := 20
	if tier == "thorough" {
		budget = 60
	}
	for i, o := range all {
		go func(i int, o *Obligation) {
			sem <- struct{}{}
			res[i] = solveOne(outDir, run.bgOf[o], o, tier, budget, seed)
			<-sem
			done <- i
		}(i, o)
	}
	for range all {
		<-done
	}
	run.results = res
	// vacuity guard (thorough tier and baseline runs): a discharged obligation whose program point is unreachable under
	// the assumed contracts is vacuous; such obligations are reported and never counted as claimed
	if tier == "thorough" || tier == "baseline" {
		type gk struct{ bg, guard string }
		seen := map[gk]string{}
		var mu sync.Mutex
		var wg sync.WaitGroup
		for _, r := range res {
			if r.Status != "unsat" || r.Obl.Guard == "" || r.Obl.Guard == "true" {
				continue
			}
			// reachability of the program point under what is assumed on the way to it (one probe per function and guard)
			k := gk{r.Obl.Func, r.Obl.Guard}
			probeBg := run.bgOf[r.Obl]
			mu.Lock()
			_, done := seen[k]
			if !done {
				seen[k] = "pending"
			}
			mu.Unlock()
			if done {
				continue
			}
			wg.Add(1)
			go func(r *Result, k gk, probeBg string) {
				defer wg.Done()
				sem <- struct{}{}
				defer func() { <-sem }()
				cover := &Obligation{Name: r.Obl.Name + "#reach", Func: r.Obl.Func, Class: "cover", Goal: not(k.guard)}
				cr := solveOne(outDir, probeBg, cover, "quick", 5, seed)
				mu.Lock()
				seen[k] = cr.Status
				mu.Unlock()
			}(r, k, probeBg)
		}
		wg.Wait()
		for _, r := range res {
			if r.Status != "unsat" || r.Obl.Guard == "" {
				continue
			}
			if seen[gk{r.Obl.Func, r.Obl.Guard}] == "unsat" {
				r.Vacuous = true
			}
		}
	}
	byFunc := map[string]int{}
	for _, r := range res {
		run.solverS += r.Seconds
		if r.Status == "unsat" {
			byFunc[r.Obl.Func]++
		}
	}
	for i := range run.funcs {
		run.funcs[i].Discharged = byFunc[run.funcs[i].Name]
	}
	run.wall = time.Since(t0).Seconds()
	return run
}

func cmdCheck(args []string) {
	fs := flag.NewFlagSet("check", flag.ExitOnError)
	repo := fs.String("repo", "/repo", "repository")
	prop := fs.String("property", "", "property id")
	tier := fs.String("tier", "quick", "quick|thorough")
	fs.Parse(args)
	if t := os.Getenv("VERIF_TIER"); t != "" && *tier == "" {
		*tier = t
	}
	seed := 0
	if s := os.Getenv("VERIF_SEED"); s != "" {
		seed, _ = strconv.Atoi(s)
	}
	cones := loadCones()
	cone := cones[*prop]
	if cone == nil {
		fmt.Fprintln(os.Stderr, "gobtvc: no cone for property", *prop)
		os.Exit(2)
	}
	t0 := time.Now()
	w, cs := loadAll(*repo)
	outDir := filepath.Join(verifDir, "out", cone.ID)
	os.RemoveAll(outDir)
	os.MkdirAll(filepath.Join(outDir, "replay"), 0o755)
	bl := loadBaseline(cone.ID)
	solverHints = bl.Hints
	for _, kf := range loadKnown().Findings {
		if kf.Property == cone.ID {
			expectedFailures[kf.Obligation] = true
		}
	}
	if *tier == "quick" {
		// obligations the baseline lists as unclaimed do not decide the property: posed, but with a short budget
		for n := range bl.Unclaimed {
			expectedFailures[n] = true
		}
	}
	run := runCone(w, cs, cone, *tier, seed, outDir)
	known := loadKnown()

	violations := 0
	knownHit := map[string]bool{}
	var unclaimed []map[string]string
	claimed, discharged := 0, 0
	byBackend := map[string]int{}
	var samples []map[string]interface{}
	for _, r := range run.results {
		name := r.Obl.Name
		if reason, un := bl.Unclaimed[name]; un {
			unclaimed = append(unclaimed, map[string]string{"obligation": name, "reason": reason, "status_now": r.Status})
			continue
		}
		kf := findKnown(known, cone.ID, name)
		if kf != nil {
			if r.Status != "unsat" {
				if !knownHit[name] {
					fmt.Printf("KNOWN-FINDING: property=%s %s (%s) witness: %s\n", cone.ID, kf.What, name, kf.Witness)
					knownHit[name] = true
				}
			}
			continue
		}
		claimed++
		if r.Status == "unsat" {
			discharged++
			byBackend[r.Solver]++
			if len(samples) < 6 {
				samples = append(samples, map[string]interface{}{"obligation": name, "at": r.Obl.Pos, "backend": r.Solver, "seconds": round3(r.Seconds), "class": r.Obl.Class})
			}
			continue
		}
		// a claimed obligation failed
		violations++
		if r.Model == "" && run.bgLite[r.Obl] != "" {
			lo := *r.Obl
			lo.Name += "#lite"
			if lr := solveOne(outDir, run.bgLite[r.Obl], &lo, "quick", 5, seed); lr.Status == "sat" {
				r.Model = lr.Model
				r.Output += "\n(model from the query without the byte-string theory; counts only if it replays)\n"
			}
		}
		rp := writeReplay(w, outDir, cone, r, *repo)
		suffix := ""
		if !rp.Confirmed {
			suffix = " no-failing-input-found"
		}
		fmt.Printf("VIOLATION property=%s replay=%s%s\n", cone.ID, rp.Path, suffix)
		fmt.Printf("  obligation %s at %s: %s by %s\n", name, r.Obl.Pos, r.Status, r.Solver)
	}
	// bounded stand-ins
	var bounded []map[string]interface{}
	for _, b := range cone.Bounded {
		ok, out, secs := runBounded(b, *tier, seed)
		bounded = append(bounded, map[string]interface{}{"name": b.Name, "what": b.What, "passed": ok, "seconds": round3(secs), "summary": out})
		if !ok {
			violations++
			p := filepath.Join(outDir, "replay", sanitize(b.Name)+".bounded.txt")
			os.WriteFile(p, []byte(out), 0o644)
			fmt.Printf("VIOLATION property=%s replay=%s\n", cone.ID, p)
		}
	}
	// a failed vacuity probe (cover obligation: the assumptions collected while encoding a function must stay
	// satisfiable) is reported like any other failed obligation: on the unchanged tree every probe passes, so a failure
	// means the code no longer fits the contracts it is checked against and nothing proved for that function counts.
	for i, v := range run.vacuity {
		fmt.Fprintln(os.Stderr, "gobtvc: VACUOUS:", v)
		os.MkdirAll(filepath.Join(outDir, "replay"), 0o755)
		p := filepath.Join(outDir, "replay", fmt.Sprintf("cover_%d.txt", i))
		os.WriteFile(p, []byte("failed obligation: cover (vacuity probe)\n"+v+"\nno counterexample: the solver proved the assumptions of this function contradictory\n"), 0o644)
		fmt.Printf("VIOLATION property=%s replay=%s no-failing-input-found\n", cone.ID, p)
		fmt.Printf("  obligation #cover: %s\n", v)
		violations++
	}
	if claimed == 0 || claimed < bl.MinObligations/2 {
		fmt.Fprintf(os.Stderr, "gobtvc: vacuity guard: only %d claimed obligations generated (baseline %d)\n", claimed, bl.MinObligations)
		os.Exit(2)
	}
	writeEvidence(cone, run, *tier, seed, claimed, discharged, byBackend, samples, unclaimed, bounded, violations, time.Since(t0).Seconds(), known)
	fmt.Printf("property %s: %d/%d claimed obligations discharged (%d functions, %d unclaimed listed), %.1fs\n", cone.ID, discharged, claimed, len(run.funcs), len(unclaimed), time.Since(t0).Seconds())
	if violations > 0 {
		os.Exit(1)
	}
}

func round3(f float64) float64 { return float64(int(f*1000)) / 1000 }

func findKnown(k *KnownFile, prop, obl string) *KnownFinding {
	for i := range k.Findings {
		if k.Findings[i].Property == prop && k.Findings[i].Obligation == obl {
			return &k.Findings[i]
		}
	}
	return nil
}

func writeEvidence(cone *Cone, run *checkRun, tier string, seed, claimed, discharged int, byBackend map[string]int, samples []map[string]interface{}, unclaimed []map[string]string, bounded []map[string]interface{}, violations int, wall float64, known *KnownFile) {
	var trusted []string
	for t := range run.trusted {
		trusted = append(trusted, t)
	}
	sort.Strings(trusted)
	trusted = append(trusted,
		"Go compiler back end, runtime, GC (SSA -> machine code)",
		"go/ssa construction of the SSA from /repo's sources (x/tools v0.29.0)",
		"int/uint are 64-bit; slices hold at most 2^48 elements",
		"SMT solvers z3 5.1.0 / z3 4.8.12 / cvc5 1.0.x: an `unsat` answer is believed",
	)
	if trusted == nil {
		trusted = []string{}
	}
	var fn []map[string]interface{}
	for _, f := range run.funcs {
		m := map[string]interface{}{"name": f.Name, "obligations": f.Obligations, "discharged": f.Discharged, "has_contract": f.Contract}
		if len(f.Unsupported) > 0 {
			m["unsupported"] = f.Unsupported
		}
		fn = append(fn, m)
	}
	var kf []KnownFinding
	for _, k := range known.Findings {
		if k.Property == cone.ID {
			kf = append(kf, k)
		}
	}
	if samples == nil {
		samples = []map[string]interface{}{}
	}
	cov := map[string]interface{}{
		"obligations":     claimed,
		"discharged":      discharged,
		"checker_cmd":     fmt.Sprintf("bin/gobtvc check --property %s --tier %s", cone.ID, tier),
		"trusted_base":    trusted,
		"functions":       fn,
		"functions_under_contract": len(fn),
		"by_backend":      byBackend,
		"solver_s":        round3(run.solverS),
		"unclaimed":       unclaimed,
		"bounded":         bounded,
		"known_findings":  kf,
		"vacuity":         map[string]interface{}{"contradictory_requires": run.vacuity, "claimed_obligations": claimed},
		"contract_source": run.sources,
		"samples":         samples,
		"arithmetic":      "mathematical integers (SMT Int) with explicit Go wrap-around on every + - * and conversion",
	}
	ev := map[string]interface{}{
		"property_id": cone.ID,
		"tier":        tier,
		"seed":        seed,
		"level":       cone.Level,
		"coverage":    cov,
		"assumptions": trusted,
		"wall_s":      round3(wall),
		"violations":  violations,
	}
	b, _ := json.MarshalIndent(ev, "", " ")
	os.MkdirAll(filepath.Join(verifDir, "evidence"), 0o755)
	os.WriteFile(filepath.Join(verifDir, "evidence", cone.ID+".json"), b, 0o644)
}

// cmdBaseline regenerates /verif/baseline/<id>.json: every obligation of the cone that is not discharged well inside the
// quick budget on the current tree is listed as unclaimed (with the reason given on the command line or "undischarged").
func cmdBaseline(args []string) {
	fs := flag.NewFlagSet("baseline", flag.ExitOnError)
	repo := fs.String("repo", "/repo", "repository")
	prop := fs.String("property", "", "property id (or 'all')")
	show := fs.Bool("show", false, "print the undischarged obligations")
	fs.Parse(args)
	cones := loadCones()
	w, cs := loadAll(*repo)
	var ids []string
	if *prop == "all" {
		for id := range cones {
			ids = append(ids, id)
		}
		sort.Strings(ids)
	} else {
		ids = strings.Split(*prop, ",")
	}
	for _, id := range ids {
		cone := cones[id]
		if cone == nil {
			fmt.Fprintln(os.Stderr, "no cone", id)
			continue
		}
		outDir := filepath.Join(verifDir, "out", "baseline-"+id)
		os.RemoveAll(outDir)
		budgetOverride = 6
		run := runCone(w, cs, cone, "baseline", 0, outDir)
		old := loadBaseline(id)
		known := loadKnown()
		bl := &Baseline{Unclaimed: map[string]string{}, Hints: map[string]string{}}
		n := 0
		for _, r := range run.results {
			if r.Status == "unsat" && r.Solver != "trivial" && r.Solver != "" && (r.Solver != "z3-new" || r.Seconds >= 1.5) {
				// also for the default solver when the obligation needed more than the short first attempt: the hint
				// gives it most of the budget at once instead of after a failed short round of every solver
				bl.Hints[r.Obl.Name] = r.Solver
			}
			if findKnown(known, id, r.Obl.Name) != nil {
				continue
			}
			// claimed: discharged in under 4 s when run on its own with the recorded solver first (the quick tier allows
			// 20 s per obligation, a fivefold margin for a loaded machine)
			limit := 5.0
			if r.Status == "unsat" && r.Seconds >= 2.0 && !r.Vacuous {
				// measured under 16-way contention and possibly after failed attempts of other solvers: time it again
				solverHints = bl.Hints
				r2 := solveOne(outDir, run.bgOf[r.Obl], r.Obl, "quick", 20, 0)
				if r2.Status == "unsat" {
					r.Seconds = r2.Seconds
				}
			}
			if r.Status == "unsat" && r.Seconds < limit && !r.Vacuous {
				n++
				continue
			}
			if r.Vacuous {
				bl.Unclaimed[r.Obl.Name] = "vacuous: program point unreachable under the assumed contracts (dead code or guarded by an implicit precondition)"
				if *show {
					fmt.Printf("  vacuous            %s [%s]\n", r.Obl.Name, r.Obl.Pos)
				}
				continue
			}
			reason := old.Unclaimed[r.Obl.Name]
			if reason == "" {
				reason = "undischarged on the unchanged tree (" + r.Status + "): needs a stronger contract or invariant"
			}
			bl.Unclaimed[r.Obl.Name] = reason
			if *show {
				fmt.Printf("  unclaimed %-8s %s [%s]\n", r.Status, r.Obl.Name, r.Obl.Pos)
			}
		}
		// obligations pinned as unclaimed by hand (/verif/pinned_unclaimed.json): discharged, but too close to the quick
		// budget to be claimed on every machine
		var pins map[string]map[string]string
		if pb, err := os.ReadFile(filepath.Join(verifDir, "pinned_unclaimed.json")); err == nil {
			json.Unmarshal(pb, &pins)
		}
		exists := map[string]bool{}
		for _, r := range run.results {
			exists[r.Obl.Name] = true
		}
		for name, reason := range pins[id] {
			if !exists[name] {
				continue
			}
			if _, already := bl.Unclaimed[name]; !already {
				bl.Unclaimed[name] = reason
				n--
			}
		}
		bl.MinObligations = n
		b, _ := json.MarshalIndent(bl, "", " ")
		os.MkdirAll(filepath.Join(verifDir, "baseline"), 0o755)
		os.WriteFile(filepath.Join(verifDir, "baseline", id+".json"), b, 0o644)
		for _, f := range run.funcs {
			for _, u := range f.Unsupported {
				fmt.Printf("  UNSUPPORTED %s: %s\n", f.Name, u)
			}
		}
		fmt.Printf("%s: %d claimed, %d unclaimed, %d functions, %.1fs\n", id, n, len(bl.Unclaimed), len(run.funcs), run.wall)
		if os.Getenv("GOBTVC_KEEP") == "" {
			os.RemoveAll(outDir)
		}
	}
}
