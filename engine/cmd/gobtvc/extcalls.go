package main

import (
	"encoding/hex"
	"fmt"
	"go/constant"
	"go/types"
	"strings"

	"golang.org/x/tools/go/ssa"
)

// extCall models the external functions whose behaviour the proofs rely on. Every model used is an ASSUMED
// contract and is recorded in trustedUsed (it ends up in the evidence's trusted_base).
// Returns false when the callee has no model here.
func (e *Enc) extCall(ins ssa.Instruction, name string, callee *ssa.Function, sig *types.Signature, res *ssa.Call, args []Val, argT []types.Type) bool {
	h := e.cur
	pos := ins.Pos()
	reach := e.reach[e.curBlock]
	trust := func(s string) { e.trustedUsed["external "+name+": "+s] = true }
	nonNilResult := func() {
		pre0 := h.clone()
		rs := e.freshResults(sig, h)
		e.assert(implies(reach, app("distinct", rs[len(rs)-1].T, "nil")))
		e.havocKey(h, "$A")
		// errors.New / fmt.Errorf build a new error value: a new object, hence none of the objects that existed before
		// the call (in particular none of the package-level error variables)
		apre := e.allocCounter(pre0)
		for _, r := range rs {
			e.assert(e.refOld(r, h))
		}
		if last := rs[len(rs)-1]; last.S == "Ref" {
			e.assert(implies(reach, app(">", "(rootid "+last.T+")", apre)))
		}
		e.setResult(res, rs)
	}
	switch name {
	case "errors.New", "fmt.Errorf", "github.com/pkg/errors.New", "github.com/pkg/errors.Errorf":
		trust("returns a non-nil error")
		nonNilResult()
		return true
	case "github.com/pkg/errors.Wrap", "github.com/pkg/errors.Wrapf", "github.com/pkg/errors.WithStack", "github.com/pkg/errors.WithMessage", "github.com/pkg/errors.WithMessagef":
		trust("returns nil iff its error argument is nil")
		rs := e.freshResults(sig, h)
		e.assert(implies(reach, app("=", app("=", rs[0].T, "nil"), app("=", args[0].T, "nil"))))
		e.havocKey(h, "$A")
		e.assert(e.refOld(rs[0], h))
		e.setResult(res, rs)
		return true
	case "fmt.Sprintf", "fmt.Sprint", "fmt.Sprintln", "strings.Join", "strings.Repeat", "strings.ToLower", "strings.ToUpper", "strings.TrimSpace":
		rs := e.freshResults(sig, h)
		e.havocKey(h, "$A")
		if content, ok := e.sprintfContent(name, ins); ok {
			trust("the verbs %s (string), %.2x (integer: two hex digits, bhex2) and %x (byte slice: hex) render their arguments in order between the literal text")
			e.assert(implies(reach, app("=", app("bstr", rs[0].T), content)))
		} else {
			trust("total; result string unconstrained")
		}
		e.setResult(res, rs)
		return true
	case "io.ReadFull":
		trust("reads n<=len(buf) bytes into buf; err==nil iff n==len(buf)")
		buf := args[1]
		e.byteWriteCheck(ins, ins.(ssa.CallInstruction).Common().Args[1], buf, "ReadFull", app(">", app("slen", buf.T), "0"))
		if e.token {
			e.heapGet(h, "T:uint8", "Int")
			e.noCouple = true
			e.havocKeyFramed(h, "T:uint8", e.allocCounter(h), []string{e.rootOf(app("sarr", buf.T))})
			e.noCouple = false
		} else {
			e.havocBytesOf(h, buf)
		}
		rs := e.freshResults(sig, h)
		n, er := rs[0], rs[1]
		e.assert(implies(reach, and(app("<=", "0", n.T), app("<=", n.T, app("slen", buf.T)), app("=", app("=", er.T, "nil"), app("=", n.T, app("slen", buf.T))))))
		if e.token {
			// the reader's remaining content is ghost state: a full read hands over its first len(buf) bytes
			rem := app("select", e.heapGet(h, "$rem", "B"), args[0].T)
			L := app("slen", buf.T)
			e.assert(implies(reach, app("=", app("=", er.T, "nil"), app(">=", app("blen", rem), L))))
			e.assert(implies(reach, app("<=", n.T, app("blen", rem))))
			nb := e.fresh("readbytes", "B")
			e.assert(implies(and(reach, app("=", er.T, "nil")), app("=", nb, app("bsub", rem, "0", L))))
			e.assert(app("=", app("blen", nb), L))
			e.setBytes(h, buf.T, nb)
			rest := e.fresh("rem", "B")
			e.assert(app("=", rest, app("bsub", rem, n.T, app("blen", rem))))
			e.assert(implies(and(reach, app("=", er.T, "nil")), app("=", rem, app("bcat", nb, rest)))) // a string is its first L bytes followed by the rest
			h.m["$rem"] = app("store", e.heapGet(h, "$rem", "B"), args[0].T, rest)
		}
		e.havocKey(h, "$A")
		e.assert(e.refOld(er, h))
		e.readerConsume(ins, args[0], n.T)
		e.setResult(res, rs)
		return true
	case "(encoding/binary.littleEndian).Uint16", "(encoding/binary.littleEndian).Uint32", "(encoding/binary.littleEndian).Uint64",
		"(encoding/binary.bigEndian).Uint16", "(encoding/binary.bigEndian).Uint32", "(encoding/binary.bigEndian).Uint64":
		trust("panics iff the slice is shorter than the width; value is the little/big-endian sum of the bytes")
		w := widthOf(name)
		b := args[1]
		e.oblige("idx", "binary."+callee.Name()+":"+descOf(e.exprText(ins.(ssa.CallInstruction).Common().Args[1], ins)), "", pos, e.guardGoal(app(">=", app("slen", b.T), ilit(int64(w)))))
		var parts []string
		hp := e.heapGet(h, "T:uint8", "Int")
		for i := 0; i < w; i++ {
			k := i
			if strings.Contains(name, "bigEndian") {
				k = w - 1 - i
			}
			cell := app("select", hp, app("elem", app("sarr", b.T), app("+", app("soff", b.T), ilit(int64(i)))))
			c := e.fresh("byte", "Int")
			e.assert(and(app("=", c, cell), app("<=", "0", c), app("<=", c, "255")))
			parts = append(parts, app("*", pow2(uint(8*k)).String(), c))
		}
		if res != nil {
			r := e.define(res, app("+", parts...))
			if e.token {
				fn := map[int]string{2: "ule16", 4: "ule32", 8: "ule64"}[w]
				if !strings.Contains(name, "bigEndian") {
					e.assert(implies(reach, app("=", r.T, app(fn, app("bsub", e.tokBytes(h, b.T), "0", ilit(int64(w)))))))
				} else if w == 4 {
					// big-endian value of the first four bytes of the content
					bb := e.nameTerm("be", "B", app("bsub", e.tokBytes(h, b.T), "0", "4"))
					e.assert(implies(reach, app("=", r.T, app("+", app("*", "16777216", app("bat", bb, "0")), app("*", "65536", app("bat", bb, "1")), app("*", "256", app("bat", bb, "2")), app("bat", bb, "3")))))
				}
			}
		}
		return true
	case "(encoding/binary.littleEndian).PutUint16", "(encoding/binary.littleEndian).PutUint32", "(encoding/binary.littleEndian).PutUint64",
		"(encoding/binary.bigEndian).PutUint16", "(encoding/binary.bigEndian).PutUint32", "(encoding/binary.bigEndian).PutUint64":
		trust("panics iff the slice is shorter than the width; writes the little/big-endian bytes of the value")
		w := widthOf(name)
		b, v := args[1], args[2]
		argV := ins.(ssa.CallInstruction).Common().Args[1]
		e.oblige("idx", "binary."+callee.Name()+":"+descOf(e.exprText(argV, ins)), "", pos, e.guardGoal(app(">=", app("slen", b.T), ilit(int64(w)))))
		e.byteWriteCheck(ins, argV, b, callee.Name(), "true")
		hp := e.heapGet(h, "T:uint8", "Int")
		for i := 0; i < w; i++ {
			k := i
			if strings.Contains(name, "bigEndian") {
				k = w - 1 - i
			}
			byteV := app("mod", app("div", v.T, pow2(uint(8*k)).String()), "256")
			hp = app("store", hp, app("elem", app("sarr", b.T), app("+", app("soff", b.T), ilit(int64(i)))), byteV)
		}
		h.m["T:uint8"] = hp
		e.compact(h)
		if e.token && !strings.Contains(name, "bigEndian") {
			fn := map[int]string{2: "le16", 4: "le32", 8: "le64"}[w]
			old := e.tokBytes(h, b.T)
			e.setBytes(h, b.T, app("bcat", app(fn, v.T), app("bsub", old, ilit(int64(w)), app("slen", b.T))))
		}
		return true
	case "encoding/hex.EncodeToString":
		trust("returns a string of length 2*len(src)")
		rs := e.freshResults(sig, h)
		e.assert(implies(reach, app("=", app("strlen", rs[0].T), app("*", "2", app("slen", args[0].T)))))
		if e.token {
			e.assert(implies(reach, app("=", rs[0].T, app("bhex", e.tokBytes(h, args[0].T)))))
		}
		e.setResult(res, rs)
		return true
	case "encoding/hex.DecodeString":
		trust("returns a fresh slice of length len(s)/2 when err==nil; total")
		rs := e.freshResults(sig, h)
		e.havocKey(h, "$A")
		a := e.allocCounter(e.cur)
		_ = a
		e.assert(implies(reach, and(
			implies(app("=", rs[1].T, "nil"), app("=", app("*", "2", app("slen", rs[0].T)), app("strlen", args[0].T))),
			app("<=", app("*", "2", app("slen", rs[0].T)), app("strlen", args[0].T)))))
		e.assertFresh(rs[0], h)
		e.assert(e.refOld(rs[1], h))
		// a constant argument is decoded here: the outcome is known exactly
		if cst, ok := ins.(ssa.CallInstruction).Common().Args[0].(*ssa.Const); ok && cst.Value != nil && cst.Value.Kind() == constant.String {
			if bs, derr := hex.DecodeString(constant.StringVal(cst.Value)); derr == nil {
				e.assert(implies(reach, and(app("=", rs[1].T, "nil"), app("=", app("slen", rs[0].T), ilit(int64(len(bs)))))))
			} else {
				e.assert(implies(reach, app("distinct", rs[1].T, "nil")))
			}
		}
		if e.token {
			// on success the bytes are the decoding of the string; decoding inverts encoding (axiom bunhex(bhex a) = a)
			e.needB = true
			e.assert(implies(and(reach, app("=", rs[1].T, "nil")), app("=", e.tokBytes(h, rs[0].T), app("bunhex", args[0].T))))
			e.assert(implies(reach, app("=", app("=", rs[1].T, "nil"), app("hexok", args[0].T))))
		}
		e.setResult(res, rs)
		return true
	case "github.com/libsv/go-bk/base58.Decode":
		trust("base58.Decode: total; returns a fresh slice that is a function of the string (empty for invalid input); inverts base58.Encode")
		rs := e.freshResults(sig, h)
		e.havocKey(h, "$A")
		e.assertFresh(rs[0], h)
		if e.token {
			e.needB = true
			e.assert(implies(reach, app("=", e.tokBytes(h, rs[0].T), app("b58dec", args[0].T))))
			e.assert(implies(reach, app("=", app("slen", rs[0].T), app("blen", app("b58dec", args[0].T)))))
		}
		e.setResult(res, rs)
		return true
	case "github.com/libsv/go-bk/base58.Encode":
		trust("base58.Encode: total; the string is a function of the bytes")
		rs := e.freshResults(sig, h)
		if e.token {
			e.needB = true
			e.assert(implies(reach, app("=", rs[0].T, app("b58enc", e.tokBytes(h, args[0].T)))))
		}
		e.setResult(res, rs)
		return true
	case "math.Round":
		trust("rounds to the nearest integer, halves away from zero")
		if res != nil {
			a := args[0].T
			k := e.fresh("rnd", "Int")
			kr := app("to_real", k)
			e.assert(implies(app(">=", a, "0.0"), and(app("<=", kr, app("+", a, "0.5")), app(">", kr, app("-", a, "0.5")))))
			e.assert(implies(app("<", a, "0.0"), and(app(">=", kr, app("-", a, "0.5")), app("<", kr, app("+", a, "0.5")))))
			e.define(res, kr)
		}
		return true
	case "bytes.NewReader", "bytes.NewBuffer":
		trust("returns a fresh reader over the given bytes: at most len(b) bytes can ever be read from it")
		o := e.newObj(h)
		rs := e.freshResults(sig, h)
		e.assert(app("=", rs[0].T, o))
		e.noteRoot(rs[0].T, "Ref", o)
		h.m["$consumed"] = app("store", e.heapGet(h, "$consumed", "Int"), rs[0].T, "0")
		h.m["$limit"] = app("store", e.heapGet(h, "$limit", "Int"), rs[0].T, app("slen", args[0].T))
		if e.token && name == "bytes.NewReader" {
			// what the reader will deliver is the content of the slice
			h.m["$rem"] = app("store", e.heapGet(h, "$rem", "B"), rs[0].T, e.tokBytes(h, args[0].T))
		}
		e.setResult(res, rs)
		return true
	case "encoding/json.Unmarshal":
		trust("total (returns an error on malformed input); writes only memory reachable from its target argument")
		ci := ins.(ssa.CallInstruction).Common()
		var except []string
		isolated := false
		if mi, ok := ci.Args[1].(*ssa.MakeInterface); ok {
			if sites, ok := e.isolatedFreshTarget(mi.X); ok {
				isolated = true
				for _, st := range sites {
					if v, known := e.vals[st]; known {
						if v.S == "Slice" {
							except = append(except, e.rootOf(app("sarr", v.T)))
						} else {
							except = append(except, e.rootOf(v.T))
						}
					} else {
						isolated = false
					}
				}
			}
		}
		if isolated {
			e.havocAllFramed(h, e.allocCounter(h), except)
		} else {
			e.havocAll(h)
		}
		rs := e.freshResults(sig, h)
		e.havocKey(h, "$A")
		e.assert(e.refOld(rs[0], h))
		e.setResult(res, rs)
		return true
	case "bytes.Join":
		// bytes.Join over a slice literal [][]byte{a, b, ...}: a fresh slice holding a ++ sep ++ b ++ ...
		ci := ins.(ssa.CallInstruction).Common()
		elems, okE := literalSliceElems(ci.Args[0])
		if !okE {
			return false
		}
		trust("bytes.Join of a slice literal returns a fresh slice holding the elements separated by sep; writes nothing else")
		rs := e.freshResults(sig, h)
		e.havocKey(h, "$A")
		e.assertFresh(rs[0], h)
		total := "0"
		var content string
		sepNil := false
		if sc, isC := ci.Args[1].(*ssa.Const); isC && sc.IsNil() {
			sepNil = true
		}
		for i, el := range elems {
			ev := e.val(el)
			if ev.S != "Slice" {
				return false
			}
			if i > 0 {
				total = app("+", total, app("slen", args[1].T))
			}
			total = app("+", total, app("slen", ev.T))
			if e.token {
				c := e.tokBytes(h, ev.T)
				if i > 0 && !sepNil {
					c = app("bcat", e.tokBytes(h, args[1].T), c)
				}
				if content == "" {
					content = c
				} else {
					content = app("bcat", content, c)
				}
			}
		}
		e.assert(implies(reach, app("=", app("slen", rs[0].T), total)))
		if e.token {
			e.needB = true
			if content == "" {
				content = "beps"
			}
			e.assert(implies(reach, app("=", e.tokBytes(h, rs[0].T), content)))
		}
		e.setResult(res, rs)
		return true
	case "bytes.Equal":
		trust("total; true implies equal lengths")
		rs := e.freshResults(sig, h)
		e.assert(implies(reach, implies(rs[0].T, app("=", app("slen", args[0].T), app("slen", args[1].T)))))
		if e.token {
			e.assert(implies(reach, app("=", rs[0].T, app("=", e.tokBytes(h, args[0].T), e.tokBytes(h, args[1].T)))))
		}
		e.setResult(res, rs)
		return true
	case "(*sync.RWMutex).Lock", "(*sync.RWMutex).RLock", "(*sync.RWMutex).Unlock", "(*sync.RWMutex).RUnlock", "(*sync.Mutex).Lock", "(*sync.Mutex).Unlock":
		trust("mutual exclusion (lock-set discipline implies data-race freedom)")
		lk := e.heapGet(h, "$lock", "Int")
		held := app("select", lk, args[0].T)
		e.usedLock = true
		switch callee.Name() {
		case "Lock":
			e.oblige("lock", "acquire-free", "", pos, e.guardGoal(app("=", held, "0")))
			h.m["$lock"] = app("store", lk, args[0].T, "2")
		case "RLock":
			e.oblige("lock", "acquire-free", "", pos, e.guardGoal(app("=", held, "0")))
			h.m["$lock"] = app("store", lk, args[0].T, "1")
		case "Unlock":
			e.oblige("lock", "release-held-w", "", pos, e.guardGoal(app("=", held, "2")))
			h.m["$lock"] = app("store", lk, args[0].T, "0")
		case "RUnlock":
			e.oblige("lock", "release-held-r", "", pos, e.guardGoal(app("=", held, "1")))
			h.m["$lock"] = app("store", lk, args[0].T, "0")
		}
		return true
	case "log.Fatal", "log.Fatalf", "log.Fatalln", "os.Exit", "log.Panic", "log.Panicf", "log.Panicln":
		e.oblige("exit", callee.Name(), "", pos, not(reach))
		e.defaultCall(ins, sig, res, map[string]bool{}, "")
		return true
	}
	if hf, ok := map[string][2]string{"crypto/sha256.Sum256": {"bsha256", "32"}, "crypto/sha1.Sum": {"bsha1", "20"}}[name]; ok && e.token && res != nil {
		trust("deterministic hash of the input bytes: returns the digest as an array value and does not modify its argument")
		rs := e.freshResults(sig, h)
		e.needB = true
		content := app(hf[0], e.tokBytes(h, args[0].T))
		if e.hashArr == nil {
			e.hashArr = map[ssa.Value]string{}
		}
		e.hashArr[res] = content
		e.setResult(res, rs)
		return true
	}
	if hf, ok := map[string][2]string{
		"github.com/libsv/go-bk/crypto.Sha256d":   {"bsha256d", "32"},
		"github.com/libsv/go-bk/crypto.Sha256":    {"bsha256", "32"},
		"github.com/libsv/go-bk/crypto.Hash160":   {"bhash160", "20"},
		"github.com/libsv/go-bk/crypto.Ripemd160": {"bripemd160", "20"},
		"github.com/libsv/go-bk/crypto.Sha1":      {"bsha1", "20"},
	}[name]; ok {
		trust("deterministic hash of the input bytes: returns a fresh slice of fixed length and does not modify its argument")
		rs := e.freshResults(sig, h)
		e.havocKey(h, "$A")
		e.assertFresh(rs[0], h)
		e.assert(implies(reach, and(app("=", app("slen", rs[0].T), hf[1]), app("distinct", app("sarr", rs[0].T), "nil"))))
		if e.token {
			e.needB = true
			e.assert(implies(reach, app("=", e.tokBytes(h, rs[0].T), app(hf[0], e.tokBytes(h, args[0].T)))))
		}
		e.setResult(res, rs)
		return true
	}
	if strings.HasPrefix(name, "(*strings.Builder).") {
		trust("ghost length: Write* grow the builder by the written length (WriteRune by 1..4); String/Len return it")
		sb := e.heapGet(h, "$sb", "Int")
		cur := app("select", sb, args[0].T)
		grow := func(by string) {
			h.m["$sb"] = app("store", sb, args[0].T, app("+", cur, by))
			rs := e.freshResults(sig, h)
			if len(rs) == 2 {
				e.assert(implies(reach, app("=", rs[1].T, "nil")))
			}
			e.setResult(res, rs)
		}
		switch callee.Name() {
		case "WriteString":
			grow(app("strlen", args[1].T))
		case "Write":
			grow(app("slen", args[1].T))
		case "WriteByte":
			grow("1")
		case "WriteRune":
			n := e.fresh("runelen", "Int")
			e.assert(and(app("<=", "1", n), app("<=", n, "4")))
			grow(n)
		case "String":
			rs := e.freshResults(sig, h)
			e.assert(implies(reach, app("=", app("strlen", rs[0].T), cur)))
			e.setResult(res, rs)
		case "Len":
			if res != nil {
				e.define(res, cur)
			}
		case "Reset":
			h.m["$sb"] = app("store", sb, args[0].T, "0")
		case "Grow":
		default:
			return false
		}
		return true
	}
	if strings.HasPrefix(name, "(*math/big.Int).") || name == "math/big.NewInt" {
		return e.bigCall(ins, name, callee, sig, res, args)
	}
	return false
}

func widthOf(name string) int {
	switch {
	case strings.HasSuffix(name, "16"):
		return 2
	case strings.HasSuffix(name, "32"):
		return 4
	}
	return 8
}

func (e *Enc) assertFresh(v Val, h *Heap) {
	// freshly allocated by an external: above the caller's entry watermark is all we may claim
	switch v.S {
	case "Slice":
		e.assert(or(app("=", app("sarr", v.T), "nil"), app(">", e.rootOf(app("sarr", v.T)), e.allocCounter(e.entryHeap))))
		e.assert(e.refOld(v, h))
	case "Ref":
		e.assert(or(app("=", v.T, "nil"), app(">", e.rootOf(v.T), e.allocCounter(e.entryHeap))))
		e.assert(e.refOld(v, h))
	}
}

// havocBytesOf: the byte cells of slice buf get unknown values; other byte cells keep theirs (precise mode) or
// the whole byte heap is forgotten.
func (e *Enc) havocBytesOf(h *Heap, buf Val) {
	if e.precise {
		e.heapGet(h, "T:uint8", "Int")
		e.havocKeyExcept(h, "T:uint8", app("sarr", buf.T))
		return
	}
	e.heapGet(h, "T:uint8", "Int")
	e.havocKey(h, "T:uint8")
}

// readerConsume: ghost accounting of bytes taken from an io.Reader (used by C09's bytesRead bound).
func (e *Enc) readerConsume(ins ssa.Instruction, r Val, n string) {
	c := e.heapGet(e.cur, "$consumed", "Int")
	// an io.Reader handed over as an interface value wrapping a *bytes.Reader made here: same ghost identity
	id := r.T
	nc := app("+", app("select", c, id), n)
	e.cur.m["$consumed"] = app("store", c, id, nc)
	lim := app("select", e.heapGet(e.cur, "$limit", "Int"), id)
	e.assert(implies(e.reach[e.curBlock], implies(app(">=", lim, "0"), app("<=", nc, lim))))
}

// bigCall: math/big.Int modelled by a ghost heap $big : object -> mathematical integer.
func (e *Enc) bigCall(ins ssa.Instruction, name string, callee *ssa.Function, sig *types.Signature, res *ssa.Call, args []Val) bool {
	h := e.cur
	reach := e.reach[e.curBlock]
	e.trustedUsed["external math/big: each method computes the mathematical operation on arbitrary-precision integers; Int64 returns the low 64 bits"] = true
	big := func() string { return e.heapGet(h, "$big", "Int") }
	val := func(r Val) string { return e.sel(big(), r.T) }
	setZ := func(z Val, t string) {
		n := e.fresh("bigv", "Int")
		e.assert(app("=", n, t))
		h.m["$big"] = app("store", big(), z.T, n)
		if res != nil {
			e.define(res, z.T)
		}
	}
	m := callee.Name()
	pos := ins.Pos()
	if name == "math/big.NewInt" {
		o := e.newObj(h)
		z := Val{e.fresh("bigobj", "Ref"), "Ref"}
		e.assert(app("=", z.T, o))
		setZ(z, args[0].T)
		return true
	}
	recvNonNil := func() {
		e.oblige("nil", "big."+m+":"+descOf(e.exprText(ins.(ssa.CallInstruction).Common().Args[0], ins)), "", pos, e.guardGoal(app("distinct", args[0].T, "nil")))
	}
	switch m {
	case "Add", "Sub", "Mul":
		recvNonNil()
		op := map[string]string{"Add": "+", "Sub": "-", "Mul": "*"}[m]
		setZ(args[0], app(op, val(args[1]), val(args[2])))
	case "Neg":
		recvNonNil()
		setZ(args[0], app("-", val(args[1])))
	case "Abs":
		recvNonNil()
		setZ(args[0], app("abs", val(args[1])))
	case "Set":
		recvNonNil()
		setZ(args[0], val(args[1]))
	case "SetInt64", "SetUint64":
		recvNonNil()
		setZ(args[0], args[1].T)
	case "Div", "Mod", "Quo", "Rem", "DivMod", "QuoRem":
		recvNonNil()
		e.oblige("div0", "big."+m, "", pos, e.guardGoal(app("distinct", val(args[2]), "0")))
		x, y := val(args[1]), val(args[2])
		var t string
		switch m {
		case "Div":
			t = app("div", x, y)
		case "Mod":
			t = app("mod", x, y)
		case "Quo":
			t = fmt.Sprintf("(ite (>= %s 0) (div %s %s) (- (div (- %s) %s)))", x, x, y, x, y)
		case "Rem":
			t = fmt.Sprintf("(- %s (* %s (ite (>= %s 0) (div %s %s) (- (div (- %s) %s)))))", x, y, x, x, y, x, y)
		default:
			t = e.fresh("bigdm", "Int")
		}
		setZ(args[0], t)
		if m == "DivMod" || m == "QuoRem" {
			e.unsupp("big.%s", m)
		}
	case "Lsh", "Rsh", "And", "Or", "Xor", "Not", "AndNot", "Exp", "SetBytes", "SetBit", "Sqrt", "GCD", "ModInverse", "SetString", "Lsh64":
		recvNonNil()
		n := e.fresh("bigop", "Int")
		ci := ins.(ssa.CallInstruction).Common()
		switch m {
		case "SetBytes":
			e.needBE = true
			e.assert(and(app(">=", n, "0"), app("=", n, app("be_of", e.heapGet(h, "T:uint8", "Int"), args[1].T))))
		case "Rsh", "Lsh":
			x := val(args[1])
			if k, ok := isConstInt(ci.Args[2]); ok && k >= 0 && k < 4096 {
				p := pow2(uint(k)).String()
				if m == "Rsh" {
					e.assert(app("=", n, app("div", x, p)))
				} else {
					e.assert(app("=", n, app("*", x, p)))
				}
			} else {
				// sign is preserved; magnitude is not modelled for symbolic shift counts
				e.assert(and(implies(app(">=", x, "0"), app(">=", n, "0")), implies(app("<", x, "0"), app("<", n, "0"))))
				if m == "Rsh" {
					e.assert(implies(app(">=", x, "0"), app("<=", n, x)))
				}
			}
		case "Not":
			e.assert(app("=", n, app("-", app("-", val(args[1])), "1")))
		case "And":
			x, y := val(args[1]), val(args[2])
			e.assert(implies(and(app(">=", x, "0"), app(">=", y, "0")), and(app(">=", n, "0"), app("<=", n, x), app("<=", n, y))))
		case "Or":
			x, y := val(args[1]), val(args[2])
			e.assert(implies(and(app(">=", x, "0"), app(">=", y, "0")), and(app(">=", n, x), app(">=", n, y))))
		}
		if m == "SetString" {
			// (z, ok)
			h.m["$big"] = app("store", big(), args[0].T, n)
			ok := e.fresh("ok", "Bool")
			rv := e.fresh("bigr", "Ref")
			e.assert(app("=", rv, app("ite", ok, args[0].T, "nil")))
			e.setResult(res, []Val{{rv, "Ref"}, {ok, "Bool"}})
			return true
		}
		setZ(args[0], n)
	case "Cmp", "CmpAbs":
		recvNonNil()
		if res != nil {
			x, y := val(args[0]), val(args[1])
			if m == "CmpAbs" {
				x, y = app("abs", x), app("abs", y)
			}
			e.define(res, fmt.Sprintf("(ite (< %s %s) (- 1) (ite (> %s %s) 1 0))", x, y, x, y))
		}
	case "Sign":
		recvNonNil()
		if res != nil {
			x := val(args[0])
			e.define(res, fmt.Sprintf("(ite (< %s 0) (- 1) (ite (> %s 0) 1 0))", x, x))
		}
	case "Int64":
		recvNonNil()
		if res != nil {
			e.define(res, wrapTo(val(args[0]), types.Typ[types.Int64]))
		}
	case "Uint64":
		recvNonNil()
		if res != nil {
			e.define(res, wrapTo(val(args[0]), types.Typ[types.Uint64]))
		}
	case "IsInt64":
		recvNonNil()
		if res != nil {
			e.define(res, inRange(val(args[0]), types.Typ[types.Int64]))
		}
	case "IsUint64":
		recvNonNil()
		if res != nil {
			e.define(res, inRange(val(args[0]), types.Typ[types.Uint64]))
		}
	case "BitLen":
		recvNonNil()
		if res != nil {
			r := e.havocVal(res)
			e.assert(implies(reach, and(app(">=", r.T, "0"), app("=", app("=", r.T, "0"), app("=", val(args[0]), "0")))))
		}
	case "Bytes", "FillBytes", "String", "Text", "Bit", "TrailingZeroBits", "ProbablyPrime", "Append", "Format":
		recvNonNil()
		rs := e.freshResults(sig, h)
		e.havocKey(h, "$A")
		for _, r := range rs {
			if r.S == "Slice" {
				e.assertFresh(r, h)
			}
		}
		if m == "Bytes" {
			// big-endian magnitude: empty iff zero; be_of ties it to SetBytes
			e.needBE = true
			x := val(args[0])
			e.assert(implies(reach, and(
				app("=", app("=", app("slen", rs[0].T), "0"), app("=", x, "0")),
				app("=", app("be_of", e.heapGet(h, "T:uint8", "Int"), rs[0].T), app("abs", x)),
				app("distinct", app("sarr", rs[0].T), "nil"))))
		}
		e.setResult(res, rs)
	default:
		return false
	}
	return true
}

// isolatedFreshTarget: v points to memory allocated in this function, and nothing this function ever stores into those
// allocations is a reference to anything else than those allocations (so an external that writes "what is reachable from
// v" cannot reach any other pre-existing object). Returns the allocation sites.
func (e *Enc) isolatedFreshTarget(v ssa.Value) ([]ssa.Value, bool) {
	ri := classifyRoot(v, e.fn, map[ssa.Value]bool{})
	if ri.kind != rootFresh || len(ri.sites) == 0 {
		return nil, false
	}
	in := map[ssa.Value]bool{}
	for _, s := range ri.sites {
		in[s] = true
		if a, ok := s.(*ssa.Alloc); ok {
			// a target whose static type contains interfaces or pointers to types with custom unmarshalers may reach
			// further; the check below (stores) covers what this function put there, zero values reach nothing
			_ = a
		}
	}
	for changed := true; changed; {
		changed = false
		for _, b := range e.fn.Blocks {
			for _, ins := range b.Instrs {
				st, ok := ins.(*ssa.Store)
				if !ok {
					continue
				}
				ar := classifyRoot(st.Addr, e.fn, map[ssa.Value]bool{})
				if ar.kind != rootFresh {
					continue
				}
				hit := false
				for _, s := range ar.sites {
					if in[s] {
						hit = true
					}
				}
				if !hit {
					continue
				}
				switch e.sortOf(st.Val.Type()) {
				case "Ref", "Slice":
				default:
					if _, isStruct := under(st.Val.Type()).(*types.Struct); !isStruct {
						continue
					}
				}
				vr := classifyRoot(st.Val, e.fn, map[ssa.Value]bool{})
				if vr.kind != rootFresh {
					return nil, false
				}
				for _, s := range vr.sites {
					if !in[s] {
						in[s] = true
						ri.sites = append(ri.sites, s)
						changed = true
					}
				}
			}
		}
	}
	return ri.sites, true
}

// sprintfContent: in token mode, the byte-string content of fmt.Sprintf with a constant format made of literal text and
// the verbs %s (string argument), %.2x (integer argument) and %x (byte-slice argument). Anything else: not modelled.
func (e *Enc) sprintfContent(name string, ins ssa.Instruction) (string, bool) {
	if !e.token || name != "fmt.Sprintf" {
		return "", false
	}
	c := ins.(ssa.CallInstruction).Common()
	if len(c.Args) != 2 {
		return "", false
	}
	fc, ok := c.Args[0].(*ssa.Const)
	if !ok || fc.Value == nil || fc.Value.Kind() != constant.String {
		return "", false
	}
	format := constant.StringVal(fc.Value)
	// the variadic arguments: stores of MakeInterface values into the backing array
	sl, ok := c.Args[1].(*ssa.Slice)
	if !ok {
		return "", false
	}
	al, ok := sl.X.(*ssa.Alloc)
	if !ok {
		return "", false
	}
	vals := map[int64]ssa.Value{}
	for _, ref := range *al.Referrers() {
		ia, ok := ref.(*ssa.IndexAddr)
		if !ok {
			continue
		}
		k, isC := isConstInt(ia.Index)
		if !isC {
			return "", false
		}
		for _, r2 := range *ia.Referrers() {
			if st, ok := r2.(*ssa.Store); ok && st.Addr == ia {
				if mi, ok := st.Val.(*ssa.MakeInterface); ok {
					vals[k] = mi.X
				} else {
					return "", false
				}
			}
		}
	}
	e.needB = true
	var parts []string
	lit := ""
	flush := func() {
		if lit != "" {
			parts = append(parts, app("bstr", e.strConst(lit)))
			lit = ""
		}
	}
	argi := int64(0)
	for i := 0; i < len(format); i++ {
		if format[i] != '%' {
			lit += string(format[i])
			continue
		}
		rest := format[i:]
		var verb string
		switch {
		case strings.HasPrefix(rest, "%.2x"):
			verb = "%.2x"
		case strings.HasPrefix(rest, "%s"):
			verb = "%s"
		case strings.HasPrefix(rest, "%x"):
			verb = "%x"
		default:
			return "", false
		}
		v, ok := vals[argi]
		if !ok {
			return "", false
		}
		argi++
		flush()
		x := e.val(v)
		switch {
		case verb == "%s" && x.S == "Str":
			parts = append(parts, app("bstr", x.T))
		case verb == "%.2x" && x.S == "Int":
			parts = append(parts, app("bhex2", x.T))
		case verb == "%x" && x.S == "Slice" && isByteSlice(v.Type()):
			parts = append(parts, app("bstr", app("bhex", e.tokBytes(e.cur, x.T))))
		default:
			return "", false
		}
		i += len(verb) - 1
	}
	flush()
	if len(parts) == 0 {
		return "beps", true
	}
	t := parts[len(parts)-1]
	for i := len(parts) - 2; i >= 0; i-- {
		t = app("bcat", parts[i], t)
	}
	return t, true
}

// literalSliceElems: the element values of a slice literal `[]T{e0, e1, ...}` (an Alloc of an array, one store per
// index, sliced once).
func literalSliceElems(v ssa.Value) ([]ssa.Value, bool) {
	sl, ok := v.(*ssa.Slice)
	if !ok {
		return nil, false
	}
	al, ok := sl.X.(*ssa.Alloc)
	if !ok {
		return nil, false
	}
	arr, ok := under(al.Type().(*types.Pointer).Elem()).(*types.Array)
	if !ok {
		return nil, false
	}
	vals := make([]ssa.Value, arr.Len())
	for _, ref := range *al.Referrers() {
		switch r := ref.(type) {
		case *ssa.IndexAddr:
			k, isC := isConstInt(r.Index)
			if !isC || k < 0 || k >= arr.Len() {
				return nil, false
			}
			for _, r2 := range *r.Referrers() {
				st, ok := r2.(*ssa.Store)
				if !ok || st.Addr != r || vals[k] != nil {
					return nil, false
				}
				vals[k] = st.Val
			}
		case *ssa.Slice:
			if r != sl {
				return nil, false
			}
		default:
			return nil, false
		}
	}
	for _, x := range vals {
		if x == nil {
			return nil, false
		}
	}
	return vals, true
}
