package main

import (
	"golang.org/x/tools/go/ssa"
	"regexp"
	"bytes"
	"context"
	"fmt"
	"os"
	"os/exec"
	"path/filepath"
	"strings"
	"sync"
	"time"
)

type Result struct {
	Obl     *Obligation
	Status  string // unsat | sat | unknown | timeout | error
	Solver  string
	Seconds float64
	Model   string
	File    string
	Output  string
	Agree   []string // solvers that independently answered unsat (thorough tier)
	Vacuous bool
}

// BackgroundFor returns the SMT background of one obligation: all declarations, and the assertions generated BEFORE the
// obligation's program point was reached (blocks are encoded in topological order). Facts assumed later — a loop
// invariant assumed at the head after its entry obligation, a callee's postcondition after its precondition obligation —
// must not be available to the earlier obligation: they would make the proof circular.
func (e *Enc) BackgroundFor(o *Obligation) string {
	// recursive spec definitions are only unfolded where folds are established: loop-invariant and lemma obligations.
	// Everywhere else the functions are uninterpreted (their values flow through the invariants), which keeps the
	// solver from unrolling them without end.
	return e.backgroundO(o.N, o.Class == "inv-entry" || o.Class == "inv-step" || o.Class == "lemma", o)
}

// Background returns the SMT text with every assertion of the function (used for dumps).
func (e *Enc) Background() string { return e.backgroundD(len(e.asserts), true) }

func (e *Enc) background(n int) string { return e.backgroundD(n, true) }

func (e *Enc) backgroundD(n int, defsOn bool) string { return e.backgroundO(n, defsOn, nil) }

var nameTokRe = regexp.MustCompile(`[A-Za-z_][A-Za-z0-9_!.$]*`)

// selectAsserts: the assertions an obligation is posed against. Dropping an assumption is always sound; two kinds are
// dropped to keep the queries small: (1) facts produced while encoding a block that cannot precede the obligation's
// block (back edges removed), (2) definitions of names nothing selected mentions.
func (e *Enc) selectAsserts(n int, o *Obligation) []string {
	if n > len(e.asserts) {
		n = len(e.asserts)
	}
	if o == nil || o.Blk == nil || len(e.assertBlk) < n {
		return e.asserts[:n]
	}
	anc := map[*ssa.BasicBlock]bool{o.Blk: true}
	stack := []*ssa.BasicBlock{o.Blk}
	for len(stack) > 0 {
		b := stack[len(stack)-1]
		stack = stack[:len(stack)-1]
		for _, p := range b.Preds {
			if b.Dominates(p) { // back edge
				continue
			}
			if !anc[p] {
				anc[p] = true
				stack = append(stack, p)
			}
		}
	}
	keep := make([]bool, n)
	defIdx := map[string]int{}
	var work []string
	for i := 0; i < n; i++ {
		if e.assertDef[i] != "" {
			defIdx[e.assertDef[i]] = i
			continue
		}
		if e.assertBlk[i] == nil || anc[e.assertBlk[i]] {
			keep[i] = true
			work = append(work, e.asserts[i])
		}
	}
	work = append(work, o.Goal, o.Guard)
	seen := map[string]bool{}
	for len(work) > 0 {
		t := work[len(work)-1]
		work = work[:len(work)-1]
		for _, nm := range nameTokRe.FindAllString(t, -1) {
			if seen[nm] {
				continue
			}
			seen[nm] = true
			if i, ok := defIdx[nm]; ok && !keep[i] {
				keep[i] = true
				work = append(work, e.asserts[i])
			}
		}
	}
	var out []string
	cnt := map[string]int{}
	dup := map[string]bool{}
	for i := 0; i < n; i++ {
		if keep[i] {
			if dup[e.asserts[i]] {
				continue
			}
			dup[e.asserts[i]] = true
			out = append(out, e.asserts[i])
			if e.assertBlk[i] == nil {
				cnt["nil"]++
			} else {
				cnt[fmt.Sprintf("b%d", e.assertBlk[i].Index)]++
			}
		}
	}
	if os.Getenv("GOBTVC_DEBUG_SLICE") != "" && strings.Contains(o.Name, os.Getenv("GOBTVC_DEBUG_SLICE")) {
		fmt.Fprintf(os.Stderr, "slice %s (block b%d): %v\n", o.Name, o.Blk.Index, cnt)
	}
	return out
}

func (e *Enc) backgroundO(n int, defsOn bool, o *Obligation) string {
	var b strings.Builder
	var facts []string
	if !e.noFacts && !e.liteB && (e.token || e.ct != nil && (e.ct.Opts["bytes-axioms"] != "" || e.ct.Opts["bytes-bound"] != "")) {
		facts = e.factsFor() // before the declarations are written: evaluating a fact may declare a function
	}
	b.WriteString(preludeSMT)
	if e.ixfn() {
		// `opt index-fn 1`: element indices are written (ix offset index) so that quantifier patterns over them survive
		// the solver's flattening of sums
		b.WriteString("(declare-fun ix (Int Int) Int)\n(assert (forall ((a Int) (b Int)) (! (= (ix a b) (+ a b)) :pattern ((ix a b)))))\n")
	}
	if e.needFP {
		b.WriteString(fpPrelude)
	}
	rawB := false
	for _, l := range e.cs.Raw {
		if strings.Contains(l, " B)") || strings.Contains(l, "(B)") || strings.Contains(l, "(B ") {
			rawB = true // a user-declared function over byte strings: the sort must exist in every query
		}
	}
	if e.needB || rawB {
		b.WriteString(bytesPrelude)
		if !e.liteB && (e.token || e.noFacts || e.ct != nil && (e.ct.Opts["bytes-axioms"] != "" || e.ct.Opts["bytes-bound"] != "")) {
			b.WriteString(bytesAxioms)
		}
		if !e.liteB && (e.noFacts || e.ct != nil && e.ct.Opts["bytes-le-defs"] != "") {
			b.WriteString(bytesLEDefs)
		}
	}
	if e.needBE {
		b.WriteString("(declare-fun be_of ((Array Ref Int) Slice) Int)\n")
	}
	for _, d := range e.dtypes {
		b.WriteString(d + "\n")
	}
	for _, l := range e.cs.Raw {
		b.WriteString(l + "\n")
	}
	for _, nm := range e.cs.SmtFunOrder {
		useDef := false
		if e.ct != nil && defsOn {
			for _, d := range strings.Fields(e.ct.Opts["defs"]) {
				if d == nm {
					useDef = true
				}
			}
		}
		if useDef {
			b.WriteString(e.cs.SmtFuns[nm][1] + "\n")
		} else {
			b.WriteString(e.cs.SmtFuns[nm][0] + "\n")
		}
	}
	for _, d := range e.specDecls {
		b.WriteString(d + "\n")
	}
	for _, d := range e.decls {
		b.WriteString(d + "\n")
	}
	for _, f := range facts {
		b.WriteString("(assert " + f + ")\n")
	}
	for _, a := range e.selectAsserts(n, o) {
		b.WriteString("(assert " + a + ")\n")
	}
	return b.String()
}

const fpPrelude = `(declare-fun fp_add (Real Real) Real)
(declare-fun fp_sub (Real Real) Real)
(declare-fun fp_mul (Real Real) Real)
(declare-fun fp_div (Real Real) Real)
(declare-fun fp_trunc (Real) Int)
`

type solverSpec struct {
	name string
	argv func(file string, timeoutS int) []string
}

var solvers = []solverSpec{
	{"z3-new", func(f string, t int) []string { return []string{"z3-new", fmt.Sprintf("-T:%d", t), f} }},
	{"z3", func(f string, t int) []string { return []string{"z3", fmt.Sprintf("-T:%d", t), f} }},
	{"cvc5", func(f string, t int) []string {
		return []string{"cvc5", fmt.Sprintf("--tlimit=%d", t*1000), "--produce-models", f}
	}},
}

func runSolver(sp solverSpec, file string, timeoutS int) (status, out string, secs float64) {
	ctx, cancel := context.WithTimeout(context.Background(), time.Duration(timeoutS+2)*time.Second)
	defer cancel()
	argv := sp.argv(file, timeoutS)
	cmd := exec.CommandContext(ctx, argv[0], argv[1:]...)
	var buf bytes.Buffer
	cmd.Stdout = &buf
	cmd.Stderr = &buf
	t0 := time.Now()
	_ = cmd.Run()
	secs = time.Since(t0).Seconds()
	out = buf.String()
	first := strings.TrimSpace(strings.SplitN(out, "\n", 2)[0])
	switch first {
	case "unsat", "sat", "unknown":
		status = first
	case "timeout":
		status = "timeout"
	default:
		if ctx.Err() != nil {
			status = "timeout"
		} else {
			status = "error"
		}
	}
	return
}

// solveAll discharges obligations in parallel. Strategy per obligation: z3-new with the tier budget first; if it does not
// answer unsat, the other two solvers are tried. In the thorough tier every unsat needs a second solver's agreement.
var budgetOverride = 0

// solverHints: obligation name -> solver to try first (from the baseline; scheduling only)
var solverHints map[string]string

func solveAll(outDir string, bg string, obls []*Obligation, tier string, workers int, seed int) []*Result {
	budget := 20
	if tier == "thorough" {
		budget = 60
	}
	if budgetOverride > 0 {
		budget = budgetOverride
	}
	os.MkdirAll(outDir, 0o755)
	results := make([]*Result, len(obls))
	var wg sync.WaitGroup
	sem := make(chan struct{}, workers)
	for i, o := range obls {
		wg.Add(1)
		go func(i int, o *Obligation) {
			defer wg.Done()
			sem <- struct{}{}
			defer func() { <-sem }()
			results[i] = solveOne(outDir, bg, o, tier, budget, seed)
		}(i, o)
	}
	wg.Wait()
	return results
}

func oblFile(outDir string, o *Obligation) string {
	n := sanitize(o.Name)
	if len(n) > 150 {
		n = n[:150] + fmt.Sprintf("_%x", hashStr(o.Name))
	}
	return filepath.Join(outDir, n+".smt2")
}

func hashStr(s string) uint32 {
	var h uint32 = 2166136261
	for i := 0; i < len(s); i++ {
		h = (h ^ uint32(s[i])) * 16777619
	}
	return h
}

// solveOne decides one obligation. A goal of the form g1 => (g2 => (c1 and c2 ...)) that is not decided as a whole is
// decided conjunct by conjunct (every conjunct must be unsat): the solvers split such goals poorly when a conjunct is
// quantified.
// expectedFailures: obligations recorded as known findings. They are still posed on every run (a fixed defect must show
// up as discharged), but with a short budget.
var expectedFailures = map[string]bool{}

func solveOne(outDir, bg string, o *Obligation, tier string, budget, seed int) *Result {
	if expectedFailures[o.Name] {
		return solveWhole(outDir, bg, o, tier, 2, seed) // one short round with every solver
	}
	parts := splitGoal(o.Goal)
	if len(parts) < 2 || o.Class == "cover" {
		return solveWhole(outDir, bg, o, tier, budget, seed)
	}
	first := 3
	if budget < first {
		first = budget
	}
	r := solveWhole(outDir, bg, o, tier, first, seed)
	if r.Status == "unsat" || r.Status == "sat" {
		return r
	}
	total := r.Seconds
	agree := map[string]bool{}
	allUnsat := true
	for i, g := range parts {
		po := *o
		po.Name = fmt.Sprintf("%s#part%d", o.Name, i)
		po.Goal = g
		pr := solveWhole(outDir, bg, &po, tier, budget, seed)
		total += pr.Seconds
		if pr.Status != "unsat" {
			allUnsat = false
			if pr.Status == "sat" {
				pr.Obl = o
				pr.Seconds = total
				return pr
			}
			break
		}
		for _, a := range pr.Agree {
			agree[a] = true
		}
		r.Solver = pr.Solver
	}
	if allUnsat {
		r.Status = "unsat"
		r.Seconds = total
		r.Agree = nil
		for a := range agree {
			r.Agree = append(r.Agree, a)
		}
		r.Output = "decided conjunct by conjunct"
		return r
	}
	r2 := solveWhole(outDir, bg, o, tier, budget, seed)
	r2.Seconds += total
	return r2
}

// splitGoal: a => (b => (and c1 .. cn))  ->  [a => (b => c1), ...]; nil when the goal has no such shape.
func splitGoal(g string) []string {
	var ants []string
	cur := g
	for strings.HasPrefix(cur, "(=> ") {
		a := splitArgs(cur)
		if len(a) != 3 {
			break
		}
		ants = append(ants, a[1])
		cur = a[2]
	}
	if !strings.HasPrefix(cur, "(and ") {
		return nil
	}
	cs := splitArgs(cur)
	if len(cs) < 3 {
		return nil
	}
	var out []string
	for _, c := range cs[1:] {
		t := c
		for i := len(ants) - 1; i >= 0; i-- {
			t = "(=> " + ants[i] + " " + t + ")"
		}
		out = append(out, t)
	}
	return out
}

func solveWhole(outDir, bg string, o *Obligation, tier string, budget, seed int) *Result {
	r := &Result{Obl: o}
	if o.Goal == "true" {
		r.Status, r.Solver = "unsat", "trivial"
		return r
	}
	file := oblFile(outDir, o)
	var b strings.Builder
	b.WriteString("; obligation " + o.Name + " at " + o.Pos + "\n")
	if seed != 0 {
		fmt.Fprintf(&b, "(set-option :random-seed %d)\n", seed%1000000)
	}
	b.WriteString(bg)
	head := b.String()
	b.WriteString("(assert (not " + stripPatterns(o.Goal) + "))\n")
	b.WriteString("(check-sat)\n(get-model)\n")
	if err := os.WriteFile(file, []byte(b.String()), 0o644); err != nil {
		r.Status = "error"
		r.Output = err.Error()
		return r
	}
	r.File = file
	// second form of the same query: outer implications and universal quantifiers of the goal eliminated by the
	// generator (see negatedGoal). Neither form dominates the other in practice; both are tried.
	skFile := ""
	if sk := negatedGoal(stripPatterns(o.Goal)); strings.Contains(sk, "(declare-const sk_") {
		skFile = strings.TrimSuffix(file, ".smt2") + ".sk.smt2"
		os.WriteFile(skFile, []byte(head+sk+"(check-sat)\n(get-model)\n"), 0o644)
	}
	if b.Len() > 4<<20 {
		r.Status = "error"
		r.Output = "VC larger than 4 MB: generator error"
		return r
	}
	// two passes: a short attempt with every solver (whichever decides quickly wins), then the full budget
	type attempt struct {
		sp  solverSpec
		tmo int
		sk  bool
	}
	var plan []attempt
	short := 2
	if budget <= short {
		short = budget
	}
	for _, sp := range solvers {
		plan = append(plan, attempt{sp, short, false})
	}
	if skFile != "" {
		plan = append(plan, attempt{solvers[0], short, true}, attempt{solvers[1], short, true})
	}
	if budget > short {
		for _, sp := range solvers {
			plan = append(plan, attempt{sp, budget, false})
		}
		if skFile != "" {
			plan = append(plan, attempt{solvers[0], budget, true})
		}
	}
	if o.Class == "cover" {
		// vacuity probes only look for a quick `unsat`; anything else means "not shown contradictory"
		plan = []attempt{{solvers[0], 2, false}, {solvers[1], 2, false}}
	}
	if h := solverHints[o.Name]; h != "" && o.Class != "cover" {
		// the solver that decided this obligation when the baseline was taken goes first, with a longer first attempt
		for _, sp := range solvers {
			if sp.name == strings.TrimSuffix(h, "+sk") {
				first := budget * 3 / 4 // most of the budget goes to the solver and form that decided it before
				if first < short {
					first = short
				}
				plan = append([]attempt{{sp, first, strings.HasSuffix(h, "+sk")}}, plan...)
			}
		}
	}
	order := solvers
	var lastOut string
	for _, at := range plan {
		sp, tmo := at.sp, at.tmo
		qf := file
		if at.sk {
			if skFile == "" {
				continue
			}
			qf = skFile
		}
		st, out, secs := runSolver(sp, qf, tmo)
		r.Seconds += secs
		if st == "unsat" {
			r.Status, r.Solver = "unsat", sp.name
			if at.sk {
				r.Solver = sp.name + "+sk"
			}
			r.Agree = append(r.Agree, sp.name)
			if tier == "thorough" {
				for _, sp2 := range order {
					if sp2.name == sp.name {
						continue
					}
					st2, _, s2 := runSolver(sp2, file, tmo)
					r.Seconds += s2
					if st2 == "unsat" {
						r.Agree = append(r.Agree, sp2.name)
						break
					}
				}
			}
			return r
		}
		if st == "sat" && r.Model == "" {
			r.Status, r.Solver, r.Model = "sat", sp.name, out
			// a sat answer from one solver is final for quantifier-free problems; keep trying others only
			// when the background has quantifiers that could make `sat` unreliable is not needed: sat is sat.
			r.Output = out
			return r
		}
		lastOut = sp.name + ": " + st + "\n" + truncate(out, 600)
		if r.Status == "" || r.Status == "error" {
			r.Status, r.Solver = st, sp.name
		}
		if st == "timeout" && r.Status != "sat" {
			r.Status = "timeout"
		}
	}
	r.Output = lastOut
	return r
}

func truncate(s string, n int) string {
	if len(s) > n {
		return s[:n] + "…"
	}
	return s
}

func solveAllEnc(outDir string, e *Enc, obls []*Obligation, tier string, workers int, seed int) []*Result {
	budget := 20
	if tier == "thorough" {
		budget = 60
	}
	if budgetOverride > 0 {
		budget = budgetOverride
	}
	os.MkdirAll(outDir, 0o755)
	results := make([]*Result, len(obls))
	var wg sync.WaitGroup
	sem := make(chan struct{}, workers)
	bgs := make([]string, len(obls))
	for i, o := range obls {
		bgs[i] = e.BackgroundFor(o) // sequentially: building a background may evaluate facts (shared caches)
	}
	for i, o := range obls {
		wg.Add(1)
		go func(i int, o *Obligation) {
			defer wg.Done()
			sem <- struct{}{}
			defer func() { <-sem }()
			results[i] = solveOne(outDir, bgs[i], o, tier, budget, seed)
		}(i, o)
	}
	wg.Wait()
	return results
}

// stripPatterns removes `(! body :pattern (...) ...)` annotations: a goal is negated, its universal quantifiers become
// existential and are skolemised; trigger annotations there only get in the solver's way.
func stripPatterns(t string) string {
	for {
		i := strings.Index(t, "(! ")
		if i < 0 {
			return t
		}
		// body starts at i+3: one balanced term
		j := i + 3
		depth := 0
		for ; j < len(t); j++ {
			if t[j] == '(' {
				depth++
			} else if t[j] == ')' {
				depth--
				if depth == 0 {
					j++
					break
				}
			} else if depth == 0 && t[j] == ' ' {
				break
			}
		}
		body := t[i+3 : j]
		// skip to the closing paren of the (! ...) form
		k := j
		depth = 1
		for ; k < len(t) && depth > 0; k++ {
			if t[k] == '(' {
				depth++
			} else if t[k] == ')' {
				depth--
			}
		}
		t = t[:i] + body + t[k:]
	}
}


// negatedGoal poses the negation of a goal. Outer implications and universal quantifiers are eliminated here
// (antecedents asserted, bound variables replaced by fresh constants): the solvers do much better on
//   A, B, not body[c/x]   than on   not (A => (B => forall x. body)).
func negatedGoal(g string) string {
	if os.Getenv("GOBTVC_NOSKOLEM") != "" {
		return "(assert (not " + g + "))\n"
	}
	var out strings.Builder
	cur := g
	skCounter := 0 // names depend on the goal only: the same query text on every run
	for depth := 0; depth < 16; depth++ {
		if strings.HasPrefix(cur, "(=> ") {
			a := splitArgs(cur)
			if len(a) != 3 {
				break
			}
			out.WriteString("(assert " + a[1] + ")\n")
			cur = a[2]
			continue
		}
		if strings.HasPrefix(cur, "(forall (") {
			a := splitArgs(cur)
			if len(a) != 3 {
				break
			}
			binders := splitArgs(a[1])
			body := a[2]
			ok := true
			type bnd struct{ name, sort string }
			var bs []bnd
			for _, b := range binders {
				p := splitArgs(b)
				if len(p) != 2 {
					ok = false
					break
				}
				if strings.Contains(body, "(("+p[0]+" ") || strings.Contains(body, " ("+p[0]+" ") && strings.Contains(body, "(forall") {
					ok = false // the name is bound again inside: leave the quantifier to the solver
					break
				}
				bs = append(bs, bnd{p[0], p[1]})
			}
			if !ok {
				break
			}
			for _, b := range bs {
				skCounter++
				c := fmt.Sprintf("sk_%s_%d", sanitize(b.name), skCounter)
				out.WriteString(fmt.Sprintf("(declare-const %s %s)\n", c, b.sort))
				body = regexp.MustCompile(`([ (])`+regexp.QuoteMeta(b.name)+`([ )])`).ReplaceAllString(body, "${1}"+c+"${2}")
				body = regexp.MustCompile(`([ (])`+regexp.QuoteMeta(b.name)+`([ )])`).ReplaceAllString(body, "${1}"+c+"${2}") // adjacent occurrences share a delimiter
			}
			cur = body
			continue
		}
		break
	}
	out.WriteString("(assert (not " + cur + "))\n")
	return out.String()
}
