package main

import (
	"fmt"
	"go/token"
	"go/types"
	"os"
	"sort"
	"strings"

	"golang.org/x/tools/go/packages"
	"golang.org/x/tools/go/ssa"
	"golang.org/x/tools/go/ssa/ssautil"
)

const modPath = "github.com/libsv/go-bt/v2"

// World is everything loaded from /repo on this run.
type World struct {
	RepoDir string
	Fset    *token.FileSet
	Prog    *ssa.Program
	Pkgs    []*ssa.Package          // library packages of the module (no examples/testing)
	Funcs   map[string]*ssa.Function // by short name, e.g. "bt.(*Tx).change", "bscript.DecodeParts"
	Names   map[*ssa.Function]string
	// address-taken struct fields: key "pkg.Type.field"
	AddrTaken map[string]bool
	// transitive write sets (heap keys); "*" means everything
	ModSet map[*ssa.Function]map[string]bool
	srcCache map[string][]byte
	implCache map[string][]*ssa.Function
	PureIface func(c *ssa.CallCommon) bool // set from the contracts: interface methods declared pure
	Impls     map[*ssa.Function][]implRef  // interface-method contracts each library method must refine
	PureSig   func(c *ssa.CallCommon) bool // set from the contracts: function types whose `sig` family contract is pure
	// package-level variables stored only by package initialisers
	FrameKeys map[*ssa.Function]map[string]bool // per-key version of FrameAll (stores in the function itself only)
	FrameAll map[*ssa.Function]bool // functions whose contract makes them prove (class framewrite) that they write only fresh memory
	ConstTables map[*ssa.Global]*constTable
	WE map[*ssa.Function]map[string]*wclass
	// closed-world function types: signature string -> library functions whose address is taken with that type. Only
	// signatures that mention an unexported library type are listed (no code outside the library can implement them).
	SigTargets map[string][]*ssa.Function
	InitOnly map[*ssa.Global]bool
	// init-only globals of interface type initialised with a freshly constructed non-nil value
	NonNilGlobal map[*ssa.Global]bool
}

func shortPkg(path string) string {
	if path == modPath {
		return "bt"
	}
	if strings.HasPrefix(path, modPath+"/") {
		p := strings.TrimPrefix(path, modPath+"/")
		switch p {
		case "bscript/interpreter":
			return "interpreter"
		case "bscript/interpreter/errs":
			return "errs"
		case "bscript/interpreter/scriptflag":
			return "scriptflag"
		case "bscript/interpreter/debug":
			return "debug"
		}
		return p
	}
	return path
}

func isLibPkg(path string) bool {
	if path != modPath && !strings.HasPrefix(path, modPath+"/") {
		return false
	}
	if strings.Contains(path, "/examples") || strings.Contains(path, "/testing") {
		return false
	}
	return true
}

// funcName gives the stable, package-relative name used in contracts and obligations.
func funcName(f *ssa.Function) string {
	if f == nil {
		return "<nil>"
	}
	if f.Parent() != nil {
		// closure: parent$N
		return funcName(f.Parent()) + "$" + strings.TrimPrefix(f.Name(), f.Parent().Name()+"$")
	}
	pk := ""
	if f.Pkg != nil {
		pk = shortPkg(f.Pkg.Pkg.Path())
	} else if f.Object() != nil && f.Object().Pkg() != nil {
		pk = shortPkg(f.Object().Pkg().Path())
	}
	if recv := f.Signature.Recv(); recv != nil {
		t := recv.Type()
		ptr := false
		if p, ok := t.(*types.Pointer); ok {
			t = p.Elem()
			ptr = true
		}
		tn := t.String()
		if n, ok := t.(*types.Named); ok {
			tn = n.Obj().Name()
			if n.Obj().Pkg() != nil && pk == "" {
				pk = shortPkg(n.Obj().Pkg().Path())
			}
		}
		if ptr {
			return fmt.Sprintf("%s.(*%s).%s", pk, tn, f.Name())
		}
		return fmt.Sprintf("%s.%s.%s", pk, tn, f.Name())
	}
	return pk + "." + f.Name()
}

func loadWorld(repo string) (*World, error) {
	cfg := &packages.Config{Mode: packages.LoadAllSyntax, Dir: repo, BuildFlags: []string{"-tags=verif"},
		Env: append(os.Environ(), "GOFLAGS=-mod=mod", "GOPROXY=off", "GOSUMDB=off", "GOTOOLCHAIN=local")}
	pkgs, err := packages.Load(cfg, "./...")
	if err != nil {
		return nil, err
	}
	var bad []string
	packages.Visit(pkgs, nil, func(p *packages.Package) {
		if isLibPkg(p.PkgPath) {
			for _, e := range p.Errors {
				bad = append(bad, e.Error())
			}
		}
	})
	if len(bad) > 0 {
		return nil, fmt.Errorf("repo does not type-check: %s", strings.Join(bad, "; "))
	}
	prog, spkgs := ssautil.AllPackages(pkgs, ssa.GlobalDebug)
	prog.Build()
	w := &World{RepoDir: repo, Prog: prog, Fset: prog.Fset, Funcs: map[string]*ssa.Function{}, Names: map[*ssa.Function]string{},
		AddrTaken: map[string]bool{}, ModSet: map[*ssa.Function]map[string]bool{}, srcCache: map[string][]byte{}, implCache: map[string][]*ssa.Function{}}
	for _, p := range spkgs {
		if p == nil || !isLibPkg(p.Pkg.Path()) {
			continue
		}
		w.Pkgs = append(w.Pkgs, p)
	}
	sort.Slice(w.Pkgs, func(i, j int) bool { return w.Pkgs[i].Pkg.Path() < w.Pkgs[j].Pkg.Path() })
	for f := range ssautil.AllFunctions(prog) {
		if f.Pkg == nil || !isLibPkg(f.Pkg.Pkg.Path()) || f.Blocks == nil {
			continue
		}
		if f.Synthetic != "" && !strings.HasPrefix(f.Synthetic, "package init") {
			continue // wrappers, thunks, bound methods
		}
		n := funcName(f)
		if _, dup := w.Funcs[n]; dup {
			continue
		}
		w.Funcs[n] = f
		w.Names[f] = n
	}
	w.computeAddrTaken()
	w.computeSigTargets()
	w.computeModSets()
	w.computeGlobals()
	w.computeConstTables()
	w.computeWritesExisting()
	return w, nil
}

func (w *World) sortedFuncNames() []string {
	var ns []string
	for n := range w.Funcs {
		ns = append(ns, n)
	}
	sort.Strings(ns)
	return ns
}

// ---------------------------------------------------------------------------------------------
// heap keys

func under(t types.Type) types.Type {
	if t == nil {
		return types.Typ[types.Invalid] // an expression that could not be typed (reported as unsupported where it arose)
	}
	return t.Underlying()
}

func structOf(t types.Type) (*types.Struct, string) {
	if p, ok := under(t).(*types.Pointer); ok {
		t = p.Elem()
	}
	name := t.String()
	if n, ok := t.(*types.Named); ok {
		name = n.Obj().Name()
		if n.Obj().Pkg() != nil {
			name = shortPkg(n.Obj().Pkg().Path()) + "." + name
		}
	}
	st, _ := under(t).(*types.Struct)
	return st, name
}

// cellKey: heap key for a free-standing cell / slice element / array element of type t.
func cellKey(t types.Type) string {
	return "T:" + typeKey(t)
}

func typeKey(t types.Type) string {
	switch u := under(t).(type) {
	case *types.Basic:
		switch u.Kind() {
		case types.Uint8:
			return "uint8"
		case types.Int, types.Int64:
			return "int64"
		case types.Uint, types.Uint64, types.Uintptr:
			return "uint64"
		case types.Int32:
			return "int32"
		}
		return u.Name()
	case *types.Slice:
		return "[]" + typeKey(u.Elem())
	case *types.Pointer:
		return "*" + qualName(u.Elem())
	case *types.Interface:
		return "iface"
	case *types.Map:
		return "map"
	case *types.Signature:
		return "func"
	case *types.Chan:
		return "chan"
	case *types.Array:
		return fmt.Sprintf("[%d]%s", u.Len(), typeKey(u.Elem()))
	case *types.Struct:
		return "struct:" + qualName(t)
	}
	return t.String()
}

func qualName(t types.Type) string {
	if n, ok := t.(*types.Named); ok {
		if n.Obj().Pkg() != nil {
			return shortPkg(n.Obj().Pkg().Path()) + "." + n.Obj().Name()
		}
		return n.Obj().Name()
	}
	if p, ok := t.(*types.Pointer); ok {
		return "*" + qualName(p.Elem())
	}
	if st, ok := t.(*types.Struct); ok {
		return fmt.Sprintf("anon%d_%x", st.NumFields(), hashStr(st.String()))
	}
	return typeKey(t)
}

// fieldKey: heap key for field i of struct type st (named name). Address-taken fields share the type heap.
func (w *World) fieldKey(structName string, st *types.Struct, i int) string {
	k := structName + "." + st.Field(i).Name()
	if w.AddrTaken[k] {
		return cellKey(st.Field(i).Type())
	}
	return "F:" + k
}

func (w *World) computeAddrTaken() {
	for f := range ssautil.AllFunctions(w.Prog) {
		if f.Blocks == nil {
			continue
		}
		for _, b := range f.Blocks {
			for _, ins := range b.Instrs {
				fa, ok := ins.(*ssa.FieldAddr)
				if !ok {
					continue
				}
				st, name := structOf(fa.X.Type())
				if st == nil {
					continue
				}
				ft := st.Field(fa.Field).Type()
				switch under(ft).(type) {
				case *types.Struct, *types.Array:
					continue // nested aggregate: no cell of its own
				}
				for _, r := range *fa.Referrers() {
					switch u := r.(type) {
					case *ssa.UnOp:
						if u.Op == token.MUL {
							continue
						}
					case *ssa.Store:
						if u.Addr == fa && u.Val != ssa.Value(fa) {
							continue
						}
					case *ssa.DebugRef:
						continue
					}
					w.AddrTaken[name+"."+st.Field(fa.Field).Name()] = true
				}
			}
		}
	}
}

// ---------------------------------------------------------------------------------------------
// write sets

func (w *World) storeKey(addr ssa.Value) []string {
	pt, ok := under(addr.Type()).(*types.Pointer)
	if !ok {
		return []string{"*"}
	}
	return w.keysForCellsOf(addr, pt.Elem())
}

// keysForCellsOf lists the heap keys of the scalar cells making up a value of type t stored at addr.
func (w *World) keysForCellsOf(addr ssa.Value, t types.Type) []string {
	if isBigInt(t) {
		return []string{"$big"}
	}
	switch u := under(t).(type) {
	case *types.Struct:
		_, name := structOf(t)
		var ks []string
		for i := 0; i < u.NumFields(); i++ {
			ks = append(ks, w.keysOfField(name, u, i)...)
		}
		return ks
	case *types.Array:
		return w.keysOfType(u.Elem())
	}
	if fa, ok := addr.(*ssa.FieldAddr); ok {
		st, name := structOf(fa.X.Type())
		if st != nil {
			return []string{w.fieldKey(name, st, fa.Field)}
		}
	}
	return []string{cellKey(t)}
}

func (w *World) keysOfField(name string, st *types.Struct, i int) []string {
	ft := st.Field(i).Type()
	switch u := under(ft).(type) {
	case *types.Struct:
		_, n2 := structOf(ft)
		var ks []string
		for j := 0; j < u.NumFields(); j++ {
			ks = append(ks, w.keysOfField(n2, u, j)...)
		}
		return ks
	case *types.Array:
		return w.keysOfType(u.Elem())
	}
	return []string{w.fieldKey(name, st, i)}
}

func (w *World) keysOfType(t types.Type) []string {
	if isBigInt(t) {
		return []string{"$big"}
	}
	switch u := under(t).(type) {
	case *types.Struct:
		_, name := structOf(t)
		var ks []string
		for i := 0; i < u.NumFields(); i++ {
			ks = append(ks, w.keysOfField(name, u, i)...)
		}
		return ks
	case *types.Array:
		return w.keysOfType(u.Elem())
	}
	return []string{cellKey(t)}
}

// external functions known not to write any heap cell the repository can observe
// (beyond the explicit effects modelled in extcalls.go).
var pureExternalPkgs = map[string]bool{
	"fmt": true, "errors": true, "github.com/pkg/errors": true, "strings": true, "strconv": true,
	"bytes": true, "encoding/hex": true, "math": true, "math/big": true, "math/bits": true, "unicode": true, "unicode/utf8": true,
	"crypto/sha256": true, "crypto/sha1": true, "golang.org/x/crypto/ripemd160": true, "hash": true,
	"github.com/libsv/go-bk/crypto": true, "github.com/libsv/go-bk/bec": true, "github.com/libsv/go-bk/base58": true,
	"github.com/libsv/go-bk/bip32": true, "github.com/libsv/go-bk/chaincfg": true, "github.com/libsv/go-bk/wif": true,
	"time": true, "regexp": true, "sort": true, "context": true, "encoding/base64": true, "net/http": true,
}

// externals that write into a caller-supplied byte slice
var byteWritingExternals = map[string]bool{
	"io.ReadFull": true, "io.ReadAtLeast": true, "encoding/hex.Decode": true, "encoding/hex.Encode": true,
	"(encoding/binary.littleEndian).PutUint16": true, "(encoding/binary.littleEndian).PutUint32": true, "(encoding/binary.littleEndian).PutUint64": true,
	"(encoding/binary.bigEndian).PutUint16": true, "(encoding/binary.bigEndian).PutUint32": true, "(encoding/binary.bigEndian).PutUint64": true,
	"(*math/big.Int).FillBytes": true, "crypto/rand.Read": true, "(*bytes.Reader).Read": true, "(*bufio.Reader).Read": true,
	"(*bytes.Buffer).Read": true, "(*crypto/sha256.digest).Sum": true,
}

func extName(f *ssa.Function) string {
	return strings.TrimPrefix(f.String(), "")
}

func (w *World) externalWrites(f *ssa.Function) map[string]bool {
	n := f.String()
	if n == "io.ReadFull" || n == "io.ReadAtLeast" {
		return map[string]bool{"T:uint8": true, "$consumed": true, "$rem": true}
	}
	if byteWritingExternals[n] {
		return map[string]bool{"T:uint8": true}
	}
	pk := ""
	if f.Pkg != nil {
		pk = f.Pkg.Pkg.Path()
	} else if f.Object() != nil && f.Object().Pkg() != nil {
		pk = f.Object().Pkg().Path()
	}
	if strings.HasPrefix(n, "(*strings.Builder).") {
		return map[string]bool{"$sb": true}
	}
	if strings.HasPrefix(n, "(*math/big.Int).") {
		switch f.Name() {
		case "Cmp", "CmpAbs", "Sign", "Int64", "Uint64", "IsInt64", "IsUint64", "BitLen", "Bytes", "String", "Text", "Bit", "TrailingZeroBits", "ProbablyPrime", "Append", "Format", "FillBytes":
			return map[string]bool{}
		}
		return map[string]bool{"$big": true}
	}
	if pureExternalPkgs[pk] {
		return map[string]bool{}
	}
	switch pk {
	case "encoding/binary":
		if strings.Contains(n, "Put") || n == "encoding/binary.Read" {
			return map[string]bool{"T:uint8": true}
		}
		return map[string]bool{}
	case "sync", "sync/atomic":
		return map[string]bool{}
	case "io":
		return map[string]bool{"T:uint8": true}
	case "log", "os":
		return map[string]bool{}
	}
	return map[string]bool{"*": true}
}

func (w *World) computeModSets() {
	all := ssautil.AllFunctions(w.Prog)
	direct := map[*ssa.Function]map[string]bool{}
	callees := map[*ssa.Function][]*ssa.Function{}
	var lib []*ssa.Function
	for f := range all {
		if f.Pkg == nil || !isLibPkg(f.Pkg.Pkg.Path()) || f.Blocks == nil {
			continue
		}
		lib = append(lib, f)
		d := map[string]bool{}
		for _, b := range f.Blocks {
			for _, ins := range b.Instrs {
				switch x := ins.(type) {
				case *ssa.Store:
					if isLocalNonEscaping(x.Addr) {
						continue
					}
					for _, k := range w.storeKey(x.Addr) {
						d[k] = true
					}
				case *ssa.MapUpdate:
					d["$s:map"] = true
				case ssa.CallInstruction:
					c := x.Common()
					if c.IsInvoke() {
						if impls, ok := w.ifaceImpls(c); ok {
							callees[f] = append(callees[f], impls...)
							continue
						}
						for k := range w.invokeWrites(c) {
							d[k] = true
							if k == "*" && os.Getenv("GOBTVC_DEBUG_STAR") != "" {
								fmt.Fprintf(os.Stderr, "STAR %s: invoke %s.%s\n", funcName(f), c.Value.Type(), c.Method.Name())
							}
						}
						continue
					}
					switch cv := c.Value.(type) {
					case *ssa.Builtin:
						switch cv.Name() {
						case "append", "copy":
							if st, ok := under(c.Args[0].Type()).(*types.Slice); ok {
								for _, k := range w.keysOfType(st.Elem()) {
									d[k] = true
								}
							}
						case "delete":
							d["$s:map"] = true
						}
					case *ssa.Function:
						if cv.Blocks != nil && cv.Pkg != nil && isLibPkg(cv.Pkg.Pkg.Path()) {
							callees[f] = append(callees[f], cv)
						} else {
							for k := range w.externalWrites(cv) {
								d[k] = true
								if k == "*" && os.Getenv("GOBTVC_DEBUG_STAR") != "" {
									fmt.Fprintf(os.Stderr, "STAR %s: external %s\n", funcName(f), cv.String())
								}
							}
						}
					case *ssa.MakeClosure:
						if fn, ok := cv.Fn.(*ssa.Function); ok {
							callees[f] = append(callees[f], fn)
						}
					default:
						if ts, ok := w.sigTargetsOf(c); ok {
							callees[f] = append(callees[f], ts...)
						} else {
							for k := range w.funcValueWrites(c) {
								d[k] = true
							}
						}
					}
				}
			}
		}
		direct[f] = d
	}
	for _, f := range lib {
		w.ModSet[f] = map[string]bool{}
		for k := range direct[f] {
			w.ModSet[f][k] = true
		}
	}
	for changed := true; changed; {
		changed = false
		for _, f := range lib {
			for _, c := range callees[f] {
				for k := range w.ModSet[c] {
					if !w.ModSet[f][k] {
						w.ModSet[f][k] = true
						changed = true
					}
				}
			}
		}
	}
}

// ifaceImpls: for an interface type that no code outside the library can implement (the interface itself is an
// unexported library type), the library methods a call may dispatch to.
func (w *World) ifaceImpls(c *ssa.CallCommon) ([]*ssa.Function, bool) {
	nt, ok := c.Value.Type().(*types.Named)
	if !ok || nt.Obj().Pkg() == nil || !isLibPkg(nt.Obj().Pkg().Path()) || nt.Obj().Exported() {
		return nil, false
	}
	it, ok := nt.Underlying().(*types.Interface)
	if !ok {
		return nil, false
	}
	key := nt.String() + "." + c.Method.Name()
	if r, done := w.implCache[key]; done {
		return r, len(r) > 0
	}
	var out []*ssa.Function
	for _, p := range w.Pkgs {
		for _, m := range p.Members {
			tn, ok := m.(*ssa.Type)
			if !ok {
				continue
			}
			for _, t := range []types.Type{tn.Type(), types.NewPointer(tn.Type())} {
				if _, isIface := tn.Type().Underlying().(*types.Interface); isIface {
					continue
				}
				if !types.Implements(t, it) {
					continue
				}
				sel := w.Prog.MethodSets.MethodSet(t).Lookup(c.Method.Pkg(), c.Method.Name())
				if sel == nil {
					continue
				}
				fn := w.Prog.MethodValue(sel)
				if fn == nil {
					continue
				}
				// synthetic wrappers (*T calling T's method) delegate to the declared method
				if fn.Synthetic != "" {
					if decl := w.Prog.FuncValue(sel.Obj().(*types.Func)); decl != nil {
						fn = decl
					}
				}
				dup := false
				for _, o := range out {
					if o == fn {
						dup = true
					}
				}
				if !dup {
					out = append(out, fn)
				}
			}
		}
	}
	w.implCache[key] = out
	return out, len(out) > 0
}

// invokeWrites: what an interface method call may write. Known interfaces are listed; the rest is "*".
func (w *World) invokeWrites(c *ssa.CallCommon) map[string]bool {
	recv := c.Value.Type().String()
	m := c.Method.Name()
	if impls, ok := w.ifaceImpls(c); ok && w.ModSet != nil {
		out := map[string]bool{}
		for _, f := range impls {
			ms, known := w.ModSet[f]
			if !known {
				return map[string]bool{"*": true}
			}
			for k := range ms {
				out[k] = true
			}
		}
		return out
	}
	if w.PureIface != nil && w.PureIface(c) {
		return map[string]bool{}
	}
	switch {
	case m == "Error" || m == "String":
		return map[string]bool{}
	case recv == "io.Reader" || recv == "io.ReaderAt" || recv == "io.ByteReader":
		return map[string]bool{"T:uint8": true}
	case recv == "hash.Hash":
		return map[string]bool{}
	case strings.HasSuffix(recv, "interpreter.Debugger"), strings.HasSuffix(recv, "interpreter.StateHandler"):
		// debugger hooks receive a *State snapshot; an iface contract (C19) says they touch nothing else
		return map[string]bool{}
	}
	return map[string]bool{"*": true}
}

func (w *World) funcValueWrites(c *ssa.CallCommon) map[string]bool {
	if w.PureSig != nil && w.PureSig(c) {
		return map[string]bool{} // the family contract of this function type says `pure` (an assumption on such values)
	}
	return map[string]bool{"*": true}
}

// isLocalNonEscaping: addr is (a field/element of) an Alloc whose address never leaves the function.
func isLocalNonEscaping(addr ssa.Value) bool {
	a := rootAlloc(addr)
	if a == nil {
		return false
	}
	return !allocEscapes(a)
}

func rootAlloc(v ssa.Value) *ssa.Alloc {
	for {
		switch x := v.(type) {
		case *ssa.Alloc:
			return x
		case *ssa.FieldAddr:
			v = x.X
		case *ssa.IndexAddr:
			if _, ok := under(x.X.Type()).(*types.Pointer); ok {
				v = x.X
			} else {
				return nil
			}
		default:
			return nil
		}
	}
}

var escCache = map[*ssa.Alloc]bool{}

func allocEscapes(a *ssa.Alloc) bool {
	if v, ok := escCache[a]; ok {
		return v
	}
	r := addrEscapes(a, 0)
	escCache[a] = r
	return r
}

func addrEscapes(v ssa.Value, depth int) bool {
	if depth > 6 {
		return true
	}
	refs := v.Referrers()
	if refs == nil {
		return true
	}
	for _, r := range *refs {
		switch u := r.(type) {
		case *ssa.DebugRef:
		case *ssa.UnOp:
			if u.Op != token.MUL {
				return true
			}
		case *ssa.Store:
			if u.Val == v {
				return true
			}
		case *ssa.FieldAddr:
			if addrEscapes(u, depth+1) {
				return true
			}
		case *ssa.IndexAddr:
			if addrEscapes(u, depth+1) {
				return true
			}
		default:
			return true
		}
	}
	return false
}

// scratchBuffer: v (a make([]T, n) or an array allocation) is only ever indexed, sliced, read, written through, measured
// or handed to functions that are known not to retain their argument (io.ReadFull, encoding/binary, copy/append as the
// source): no reference to its memory is ever stored in the heap, returned or captured. Then no value loaded from the
// heap can point into it.
func scratchBuffer(v ssa.Value, depth int) bool {
	if depth > 4 {
		return false
	}
	refs := v.Referrers()
	if refs == nil {
		return false
	}
	for _, r := range *refs {
		switch u := r.(type) {
		case *ssa.DebugRef:
		case *ssa.UnOp:
			if u.Op != token.MUL {
				return false
			}
		case *ssa.Store:
			if u.Val == v {
				return false
			}
		case *ssa.IndexAddr:
			if !scratchBuffer(u, depth+1) {
				return false
			}
		case *ssa.Slice:
			if !scratchBuffer(u, depth+1) {
				return false
			}
		case *ssa.Call:
			if b, ok := u.Call.Value.(*ssa.Builtin); ok {
				switch b.Name() {
				case "len", "cap":
					continue
				case "copy":
					continue // copies elements, keeps no reference
				case "append":
					if len(u.Call.Args) == 2 && u.Call.Args[1] == v && u.Call.Args[0] != v {
						continue // source of an append: elements are copied
					}
				}
				return false
			}
			c := u.Call.StaticCallee()
			if c == nil {
				return false
			}
			n := c.String()
			if n == "io.ReadFull" || strings.HasPrefix(n, "(encoding/binary.littleEndian).") || strings.HasPrefix(n, "(encoding/binary.bigEndian).") {
				continue
			}
			return false
		default:
			return false
		}
	}
	return true
}

func (w *World) src(file string) []byte {
	if b, ok := w.srcCache[file]; ok {
		return b
	}
	b, _ := os.ReadFile(file)
	w.srcCache[file] = b
	return b
}

// srcText returns the source text between two positions (single line, whitespace-normalised, capped).
func (w *World) srcText(pos, end token.Pos) string {
	if !pos.IsValid() {
		return ""
	}
	p := w.Fset.Position(pos)
	b := w.src(p.Filename)
	if b == nil {
		return ""
	}
	e := p.Offset
	if end.IsValid() {
		e = w.Fset.Position(end).Offset
	}
	if e <= p.Offset || e > len(b) {
		e = p.Offset
		for e < len(b) && b[e] != '\n' {
			e++
		}
	}
	s := strings.Join(strings.Fields(string(b[p.Offset:e])), " ")
	if len(s) > 60 {
		s = s[:60]
	}
	return s
}

// keySort: SMT sort of the cells under a heap key.
func (w *World) keySort(e *Enc, k string) (string, bool) {
	switch {
	case strings.HasPrefix(k, "F:"):
		parts := strings.Split(strings.TrimPrefix(k, "F:"), ".")
		if len(parts) != 3 {
			return "", false
		}
		t := w.lookupType(parts[0] + "." + parts[1])
		if t == nil {
			return "", false
		}
		st, _ := under(t).(*types.Struct)
		if st == nil {
			return "", false
		}
		for i := 0; i < st.NumFields(); i++ {
			if st.Field(i).Name() == parts[2] {
				return e.sortOf(st.Field(i).Type()), true
			}
		}
	case strings.HasPrefix(k, "T:"):
		tk := strings.TrimPrefix(k, "T:")
		switch {
		case strings.HasPrefix(tk, "[]"):
			return "Slice", true
		case strings.HasPrefix(tk, "*"), tk == "iface", tk == "map", tk == "func", tk == "chan":
			return "Ref", true
		case tk == "bool":
			return "Bool", true
		case tk == "string":
			return "Str", true
		case strings.HasPrefix(tk, "float"):
			return "Real", true
		}
		return "Int", true
	case k == "$big", k == "$lock", k == "$consumed", k == "$sb", k == "$limit":
		return "Int", true
	case k == "$bytes", k == "$rem":
		return "B", true
	case k == "$never":
		return "Int", true
	}
	return "", false
}

// lookupType resolves "bt.Tx", "*bt.Tx", "bscript.Script", "interpreter.thread" to a Go type.
func (w *World) lookupType(name string) types.Type {
	if strings.HasPrefix(name, "[]") {
		if name == "[]byte" || name == "[]uint8" {
			return types.NewSlice(types.Typ[types.Uint8])
		}
		if el := w.lookupType(name[2:]); el != nil {
			return types.NewSlice(el)
		}
		return nil
	}
	ptr := false
	if strings.HasPrefix(name, "*") {
		ptr = true
		name = name[1:]
	}
	k := strings.LastIndex(name, ".")
	if k < 0 {
		return nil
	}
	pk, tn := name[:k], name[k+1:]
	for _, p := range w.Pkgs {
		if shortPkg(p.Pkg.Path()) == pk {
			if obj := p.Pkg.Scope().Lookup(tn); obj != nil {
				if ptr {
					return types.NewPointer(obj.Type())
				}
				return obj.Type()
			}
		}
	}
	return nil
}

func (w *World) computeGlobals() {
	w.InitOnly = map[*ssa.Global]bool{}
	w.NonNilGlobal = map[*ssa.Global]bool{}
	mutated := map[*ssa.Global]bool{}
	addrUsed := map[*ssa.Global]bool{}
	initStore := map[*ssa.Global][]ssa.Value{}
	for f := range ssautil.AllFunctions(w.Prog) {
		if f.Blocks == nil || f.Pkg == nil || !isLibPkg(f.Pkg.Pkg.Path()) {
			continue
		}
		isInit := f.Name() == "init" || strings.HasPrefix(f.Name(), "init#")
		for _, b := range f.Blocks {
			for _, ins := range b.Instrs {
				for _, op := range ins.Operands(nil) {
					g, ok := (*op).(*ssa.Global)
					if !ok {
						continue
					}
					switch x := ins.(type) {
					case *ssa.Store:
						if x.Addr == g {
							if isInit {
								initStore[g] = append(initStore[g], x.Val)
							} else {
								mutated[g] = true
							}
							continue
						}
						addrUsed[g] = true
					case *ssa.UnOp:
						if x.Op != token.MUL {
							addrUsed[g] = true
						}
					case *ssa.DebugRef:
					default:
						addrUsed[g] = true
					}
				}
			}
		}
	}
	for _, p := range w.Pkgs {
		for _, m := range p.Members {
			g, ok := m.(*ssa.Global)
			if !ok || mutated[g] || addrUsed[g] {
				continue
			}
			w.InitOnly[g] = true
			if _, isIface := under(g.Type().(*types.Pointer).Elem()).(*types.Interface); !isIface {
				continue
			}
			vals := initStore[g]
			if len(vals) != 1 {
				continue
			}
			switch v := vals[0].(type) {
			case *ssa.Call:
				if c := v.Call.StaticCallee(); c != nil {
					switch c.String() {
					case "errors.New", "fmt.Errorf", "github.com/pkg/errors.New", "github.com/pkg/errors.Errorf":
						w.NonNilGlobal[g] = true
					}
				}
			case *ssa.MakeInterface:
				w.NonNilGlobal[g] = true
			}
		}
	}
}

func sigString(t types.Type) string { return types.TypeString(t.Underlying(), shortQual) }

func mentionsUnexportedLibType(t types.Type, depth int) bool {
	if depth > 6 {
		return false
	}
	switch u := t.(type) {
	case *types.Named:
		if u.Obj().Pkg() != nil && isLibPkg(u.Obj().Pkg().Path()) && !u.Obj().Exported() {
			return true
		}
		return false
	case *types.Pointer:
		return mentionsUnexportedLibType(u.Elem(), depth+1)
	case *types.Slice:
		return mentionsUnexportedLibType(u.Elem(), depth+1)
	case *types.Signature:
		for i := 0; i < u.Params().Len(); i++ {
			if mentionsUnexportedLibType(u.Params().At(i).Type(), depth+1) {
				return true
			}
		}
		for i := 0; i < u.Results().Len(); i++ {
			if mentionsUnexportedLibType(u.Results().At(i).Type(), depth+1) {
				return true
			}
		}
	}
	return false
}

func (w *World) computeSigTargets() {
	w.SigTargets = map[string][]*ssa.Function{}
	seen := map[*ssa.Function]bool{}
	for f := range ssautil.AllFunctions(w.Prog) {
		if f.Blocks == nil || f.Pkg == nil || !isLibPkg(f.Pkg.Pkg.Path()) {
			continue
		}
		for _, b := range f.Blocks {
			for _, ins := range b.Instrs {
				for _, op := range ins.Operands(nil) {
					fn, ok := (*op).(*ssa.Function)
					if !ok || fn.Blocks == nil || fn.Pkg == nil || !isLibPkg(fn.Pkg.Pkg.Path()) {
						continue
					}
					if ci, isCall := ins.(ssa.CallInstruction); isCall && ci.Common().Value == fn {
						continue // a direct call, not an address-taken use
					}
					if seen[fn] {
						continue
					}
					seen[fn] = true
					if mentionsUnexportedLibType(fn.Signature, 0) {
						s := sigString(fn.Signature)
						w.SigTargets[s] = append(w.SigTargets[s], fn)
					}
				}
			}
		}
	}
}

// closureName: short name of the function a closure runs; bound-method wrappers are named <method>$bound.
func (w *World) closureName(fn *ssa.Function) string {
	if n, ok := w.Names[fn]; ok {
		return n
	}
	if strings.HasSuffix(fn.Name(), "$bound") {
		if obj, ok := fn.Object().(*types.Func); ok {
			if m := w.Prog.FuncValue(obj); m != nil {
				if n, ok := w.Names[m]; ok {
					return n + "$bound"
				}
			}
		}
	}
	return fn.String()
}

// sigTargetsOf: the possible callees of a call through a function value of a closed-world type.
func (w *World) sigTargetsOf(c *ssa.CallCommon) ([]*ssa.Function, bool) {
	if c.IsInvoke() {
		return nil, false
	}
	if _, isFn := c.Value.(*ssa.Function); isFn {
		return nil, false
	}
	if _, isB := c.Value.(*ssa.Builtin); isB {
		return nil, false
	}
	sg, ok := c.Value.Type().Underlying().(*types.Signature)
	if !ok || !mentionsUnexportedLibType(sg, 0) {
		return nil, false
	}
	ts := w.SigTargets[sigString(sg)]
	return ts, len(ts) > 0
}

// implRef: an interface method contract that a library method has to refine.
type implRef struct {
	Key    string
	Ct     *Contract
	Params []string // parameter names of the interface method (after the receiver, which the contract calls recv)
}

// ifaceImpls: for every library method, the interface-method contracts with postconditions it implements. The method is
// checked against those postconditions as well (class `post`), so that what callers assume at an interface call is
// proved of every implementation in the module (implementations outside the module: assumption).
func (w *World) ifaceRefinements(cs *Contracts) map[*ssa.Function][]implRef {
	out := map[*ssa.Function][]implRef{}
	for _, p := range w.Pkgs {
		for _, m := range p.Members {
			tn, ok := m.(*ssa.Type)
			if !ok {
				continue
			}
			it, isIface := tn.Type().Underlying().(*types.Interface)
			if !isIface {
				continue
			}
			for i := 0; i < it.NumMethods(); i++ {
				key := qualName(tn.Type()) + "." + it.Method(i).Name()
				ct := cs.IfaceFor(key)
				if ct == nil {
					continue
				}
				real := 0
				for _, en := range ct.Ensures {
					if !en.Define {
						real++
					}
				}
				if real == 0 {
					continue // only assumed definition clauses: nothing for implementations to prove
				}
				ms := it.Method(i).Type().(*types.Signature)
				var params []string
				for j := 0; j < ms.Params().Len(); j++ {
					params = append(params, ms.Params().At(j).Name())
				}
				for j, n := range strings.Fields(ct.Opts["params"]) {
					if j < len(params) {
						params[j] = n
					}
				}
				for _, p2 := range w.Pkgs {
					for _, m2 := range p2.Members {
						t2, ok := m2.(*ssa.Type)
						if !ok {
							continue
						}
						if _, isI := t2.Type().Underlying().(*types.Interface); isI {
							continue
						}
						seen := map[*ssa.Function]bool{}
						for _, t := range []types.Type{t2.Type(), types.NewPointer(t2.Type())} {
							if !types.Implements(t, it) {
								continue
							}
							sel := w.Prog.MethodSets.MethodSet(t).Lookup(it.Method(i).Pkg(), it.Method(i).Name())
							if sel == nil {
								continue
							}
							fn := w.Prog.FuncValue(sel.Obj().(*types.Func))
							if fn == nil || seen[fn] || fn.Synthetic != "" {
								continue
							}
							seen[fn] = true
							out[fn] = append(out[fn], implRef{key, ct, params})
						}
					}
				}
			}
		}
	}
	return out
}

// checkPureIfaces: every library type implementing an interface method declared `pure` must write no memory that
// existed before the call.
func (w *World) checkPureIfaces(cs *Contracts) []string {
	var bad []string
	for _, p := range w.Pkgs {
		for _, m := range p.Members {
			tn, ok := m.(*ssa.Type)
			if !ok {
				continue
			}
			it, isIface := tn.Type().Underlying().(*types.Interface)
			if !isIface {
				continue
			}
			for i := 0; i < it.NumMethods(); i++ {
				key := qualName(tn.Type()) + "." + it.Method(i).Name()
				ct := cs.IfaceFor(key)
				if ct == nil || !ct.Pure {
					continue
				}
				for _, p2 := range w.Pkgs {
					for _, m2 := range p2.Members {
						t2, ok := m2.(*ssa.Type)
						if !ok {
							continue
						}
						for _, t := range []types.Type{t2.Type(), types.NewPointer(t2.Type())} {
							if _, isI := t2.Type().Underlying().(*types.Interface); isI || !types.Implements(t, it) {
								continue
							}
							sel := w.Prog.MethodSets.MethodSet(t).Lookup(it.Method(i).Pkg(), it.Method(i).Name())
							if sel == nil {
								continue
							}
							fn := w.Prog.FuncValue(sel.Obj().(*types.Func))
							if fn == nil {
								continue
							}
							for k, wc := range w.WE[fn] {
								if wc.other || len(wc.params) > 0 {
									bad = append(bad, key+" is declared pure but "+funcName(fn)+" may write existing "+k)
								}
							}
						}
					}
				}
			}
		}
	}
	return bad
}
