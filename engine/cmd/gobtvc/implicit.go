package main

import (
	"go/types"
	"strings"

	"golang.org/x/tools/go/ssa"
)

// Implicit preconditions every library function carries (assumed at its entry, checked at every static call site):
//   - a pointer receiver is non-nil (unless the contract says `opt nilrecv ok`);
//   - a mutex the function itself acquires through a field of one of its parameters is not already held by the caller.
type implPre struct {
	kind  string // "recv" | "lockfree"
	param int
	field int
}

var implCache = map[*ssa.Function][]implPre{}

func (e *Enc) implicitPre(fn *ssa.Function) []implPre {
	if r, ok := implCache[fn]; ok {
		return r
	}
	var out []implPre
	if fn.Signature.Recv() != nil && len(fn.Params) > 0 {
		if _, isPtr := under(fn.Params[0].Type()).(*types.Pointer); isPtr {
			ct := e.cs.For(e.w.Names[fn])
			if (ct == nil || ct.Opts["nilrecv"] == "") && !comparedWithNil(fn.Params[0]) {
				out = append(out, implPre{kind: "recv", param: 0})
			}
		}
	}
	// every other parameter that is a pointer to a struct (and is not itself tested against nil by the function)
	ct0 := e.cs.For(e.w.Names[fn])
	if ct0 == nil || ct0.Opts["nilargs"] == "" {
		for i, p := range fn.Params {
			if i == 0 && fn.Signature.Recv() != nil {
				continue
			}
			pt, isPtr := under(p.Type()).(*types.Pointer)
			if !isPtr {
				// interface parameters other than error (hash.Hash, io.Reader, Debugger ...) are non-nil too
				if _, isIface := under(p.Type()).(*types.Interface); !isIface || p.Type().String() == "error" || p.Type().String() == "interface{}" || p.Type().String() == "any" {
					continue
				}
			} else if _, isStruct := under(pt.Elem()).(*types.Struct); !isStruct {
				// pointers to other things (named slices such as *bscript.Script): required non-nil only when the
				// function dereferences them without any nil test
				if !derefsUnconditionally(p) {
					continue
				}
			}
			if comparedWithNil(p) {
				continue
			}
			out = append(out, implPre{kind: "recv", param: i})
		}
	}
	seen := map[[2]int]bool{}
	for _, b := range fn.Blocks {
		for _, ins := range b.Instrs {
			ci, ok := ins.(ssa.CallInstruction)
			if !ok {
				continue
			}
			c := ci.Common()
			callee := c.StaticCallee()
			if callee == nil || len(c.Args) == 0 {
				continue
			}
			n := callee.String()
			if !strings.HasPrefix(n, "(*sync.RWMutex).") && !strings.HasPrefix(n, "(*sync.Mutex).") {
				continue
			}
			if callee.Name() != "Lock" && callee.Name() != "RLock" {
				continue
			}
			fa, ok := c.Args[0].(*ssa.FieldAddr)
			if !ok {
				continue
			}
			p, ok := fa.X.(*ssa.Parameter)
			if !ok {
				continue
			}
			for i, pp := range fn.Params {
				if pp == p && !seen[[2]int{i, fa.Field}] {
					seen[[2]int{i, fa.Field}] = true
					out = append(out, implPre{kind: "lockfree", param: i, field: fa.Field})
				}
			}
		}
	}
	implCache[fn] = out
	return out
}

func (e *Enc) implTerm(p implPre, args []Val, h *Heap) string {
	if p.param >= len(args) {
		return "true"
	}
	switch p.kind {
	case "recv":
		return app("distinct", args[p.param].T, "nil")
	case "lockfree":
		return app("=", app("select", e.heapGet(h, "$lock", "Int"), app("emb", args[p.param].T, ilit(int64(p.field)))), "0")
	}
	return "true"
}

func comparedWithNil(p *ssa.Parameter) bool {
	if p.Referrers() == nil {
		return false
	}
	for _, r := range *p.Referrers() {
		if b, ok := r.(*ssa.BinOp); ok {
			if c, isC := b.Y.(*ssa.Const); isC && c.Value == nil {
				return true
			}
			if c, isC := b.X.(*ssa.Const); isC && c.Value == nil {
				return true
			}
		}
	}
	return false
}

// derefsUnconditionally: the parameter is loaded from in the entry block (before any branch).
func derefsUnconditionally(p *ssa.Parameter) bool {
	if p.Referrers() == nil {
		return false
	}
	for _, r := range *p.Referrers() {
		if u, ok := r.(*ssa.UnOp); ok && u.X == ssa.Value(p) && u.Block().Index == 0 {
			return true
		}
	}
	return false
}
