package main

import (
	"regexp"
	"fmt"
	"go/types"
	"strconv"
	"strings"

	"golang.org/x/tools/go/ssa"
)

// binding of a contract-expression name
type binding struct {
	val Val
	typ types.Type // Go type when known (enables (. e F), (len e), (at e i))
}

type evalEnv struct {
	names map[string]binding
	heap  *Heap
	old   *Heap
	bound map[string]bool
	owner string // function the contract belongs to (for error messages)
	pkg   *types.Package
	quiet bool // no side facts
}

// nameLoaded: a value read through several frames is a long conditional term; give it a name (not under a binder).
func (e *Enc) nameLoaded(env *evalEnv, sort, t string) string {
	if len(env.bound) != 0 {
		return t
	}
	return e.nameTerm("lv", sort, t)
}

// ixfn: the contract asks for element indices written with the uninterpreted sum `ix` (see backgroundO).
func (e *Enc) ixfn() bool { return e.ct != nil && e.ct.Opts["index-fn"] != "" }

func (e *Enc) ixAdd(off, i string) string {
	if e.ixfn() {
		return app("ix", off, i)
	}
	return app("+", off, i)
}

// sideOK: facts about the values met while evaluating may be asserted (not under a binder, not at an arbitrary index).
func (env *evalEnv) sideOK() bool { return len(env.bound) == 0 && !env.quiet }

func (env *evalEnv) with(name string, b binding) *evalEnv {
	n := *env
	n.names = map[string]binding{}
	for k, v := range env.names {
		n.names[k] = v
	}
	n.names[name] = b
	return &n
}

// sideFact asserts a fact discovered while evaluating a contract expression (well-typedness of a loaded value ...).
// It is guarded by the reachability of the program point the expression is evaluated at: facts about freshly numbered
// objects of parallel branches must not meet unguarded.
func (e *Enc) sideFact(env *evalEnv, t string) {
	if t == "true" {
		return
	}
	g := "true"
	if e.curBlock != nil {
		if r, ok := e.reach[e.curBlock]; ok {
			g = r
		}
	}
	e.assert(implies(g, t))
}

// typed evaluation result
type tv struct {
	v Val
	t types.Type
}

func (e *Enc) entryEnv() *evalEnv {
	env := &evalEnv{names: map[string]binding{}, heap: e.entryHeap, old: e.entryHeap, owner: e.name}
	if e.fn.Pkg != nil {
		env.pkg = e.fn.Pkg.Pkg
	}
	for _, p := range e.fn.Params {
		env.names[p.Name()] = binding{e.val(p), p.Type()}
		env.names[p.Name()+"0"] = binding{e.val(p), p.Type()}
	}
	for _, p := range e.fn.FreeVars {
		env.names[p.Name()] = binding{e.val(p), p.Type()}
	}
	env.names["A0"] = binding{Val{e.allocCounter(e.entryHeap), "Int"}, nil}
	return env
}

func (e *Enc) exitEnv(r *ssa.Return) *evalEnv {
	env := e.entryEnv()
	env.heap = e.cur
	res := e.fn.Signature.Results()
	for i, rv := range r.Results {
		b := binding{e.val(rv), res.At(i).Type()}
		env.names[fmt.Sprintf("r%d", i)] = b
		if res.At(i).Name() != "" {
			env.names[res.At(i).Name()] = b
		}
		if i == 0 {
			env.names["result"] = b
		}
		if i == len(r.Results)-1 && res.At(i).Type().String() == "error" {
			env.names["err"] = b
		}
	}
	return env
}

// callEnv: environment for evaluating callee contract clauses at a call site.
func (e *Enc) callEnv(callee *ssa.Function, sig *types.Signature, params []string, args []Val, argTypes []types.Type, pre, post *Heap, results []Val) *evalEnv {
	env := &evalEnv{names: map[string]binding{}, heap: post, old: pre, owner: "call"}
	if callee != nil && callee.Pkg != nil {
		env.pkg = callee.Pkg.Pkg
	} else if callee == nil && e.fn.Pkg != nil {
		env.pkg = e.fn.Pkg.Pkg // function-type (sig) and interface contracts: package-level names of the calling package
	}
	for i, n := range params {
		if i < len(args) {
			env.names[n] = binding{args[i], argTypes[i]}
			env.names[n+"0"] = binding{args[i], argTypes[i]}
		}
	}
	env.names["A0"] = binding{Val{e.allocCounter(pre), "Int"}, nil}
	// CA0: the allocation mark at the entry of the *calling* function (for preconditions of the form "the argument was
	// allocated by the caller during this activation"); unbound when a contract is read from the callee's side
	env.names["CA0"] = binding{Val{e.allocCounter(e.entryHeap), "Int"}, nil}
	if results != nil {
		res := sig.Results()
		for i, rv := range results {
			b := binding{rv, res.At(i).Type()}
			env.names[fmt.Sprintf("r%d", i)] = b
			if res.At(i).Name() != "" {
				env.names[res.At(i).Name()] = b
			}
			if i == 0 {
				env.names["result"] = b
			}
			if i == len(results)-1 && res.At(i).Type().String() == "error" {
				env.names["err"] = b
			}
		}
	}
	return env
}

// loopEnv: names visible in a loop invariant. from==nil: state at the head (phis as themselves);
// otherwise the state at the end of predecessor `from` (phis replaced by their incoming values).
func (e *Enc) loopEnv(head *ssa.BasicBlock, li *loopInfo, from *ssa.BasicBlock, h *Heap) *evalEnv {
	env := e.entryEnv()
	env.heap = h
	// names known from DebugRefs in dominating blocks
	for b := head; b != nil; b = b.Idom() {
		if b == head {
			continue
		}
		for n, v := range e.nameAt[b] {
			if _, dup := env.names[n]; !dup {
				if _, isPhi := v.(*ssa.Phi); isPhi && v.(*ssa.Phi).Block() == head {
					continue
				}
				if _, known := e.vals[v]; known || isConstOrParam(v) {
					env.names[n] = binding{e.val(v), v.Type()}
				}
			}
		}
		// a variable merged at the top of a dominating block: the phi is its value from there on (unless the block
		// itself redefines it, which the references above already cover)
		for _, ins := range b.Instrs {
			phi, ok := ins.(*ssa.Phi)
			if !ok {
				break
			}
			if phi.Comment == "" {
				continue
			}
			if _, dup := env.names[phi.Comment]; dup {
				continue
			}
			if _, known := e.vals[phi]; known {
				env.names[phi.Comment] = binding{e.val(phi), phi.Type()}
			}
		}
	}
	// address-taken locals: name -> current content
	for _, b := range e.fn.Blocks {
		for _, ins := range b.Instrs {
			if a, ok := ins.(*ssa.Alloc); ok && a.Comment != "" && b.Dominates(head) {
				if av, known := e.vals[a]; known {
					t := a.Type().(*types.Pointer).Elem()
					switch under(t).(type) {
					case *types.Struct, *types.Array:
						env.names[a.Comment] = binding{av, a.Type()}
					default:
						env.names[a.Comment] = binding{Val{e.load(h, av.T, a, t), e.sortOf(t)}, t}
					}
				}
			}
		}
	}
	idx := -1
	if from != nil {
		for i, p := range head.Preds {
			if p == from {
				idx = i
			}
		}
	}
	for _, ins := range head.Instrs {
		phi, ok := ins.(*ssa.Phi)
		if !ok {
			break
		}
		if phi.Comment == "" {
			continue
		}
		if idx >= 0 {
			env.names[phi.Comment] = binding{e.val(phi.Edges[idx]), phi.Type()}
		} else {
			env.names[phi.Comment] = binding{e.val(phi), phi.Type()}
		}
	}
	return env
}

func isConstOrParam(v ssa.Value) bool {
	switch v.(type) {
	case *ssa.Const, *ssa.Parameter, *ssa.Global, *ssa.FreeVar:
		return true
	}
	return false
}

func (e *Enc) evalBool(sx *Sx, env *evalEnv) string {
	r := e.eval(sx, env)
	if r.v.S != "Bool" {
		e.unsupp("contract of %s: %s is not Bool (%s)", env.owner, sx, r.v.S)
		return "true"
	}
	return r.v.T
}

func (e *Enc) evalInt(sx *Sx, env *evalEnv) string {
	r := e.eval(sx, env)
	return r.v.T
}

func (e *Enc) eval(sx *Sx, env *evalEnv) tv {
	if !sx.IsList {
		return e.evalAtom(sx.Atom, env)
	}
	if len(sx.List) == 0 {
		e.unsupp("empty expression")
		return tv{Val{"true", "Bool"}, nil}
	}
	h := sx.head()
	args := sx.List[1:]
	switch h {
	case ".":
		base := e.eval(args[0], env)
		for _, f := range args[1:] {
			base = e.fieldOf(base, f.Atom, env)
		}
		return base
	case "addr.":
		base := e.eval(args[0], env)
		st, _ := structOf(base.t)
		if st == nil {
			e.unsupp("addr.: %s is not a struct pointer", args[0])
			return tv{Val{"nil", "Ref"}, nil}
		}
		for i := 0; i < st.NumFields(); i++ {
			if st.Field(i).Name() == args[1].Atom {
				return tv{Val{app("emb", base.v.T, ilit(int64(i))), "Ref"}, types.NewPointer(st.Field(i).Type())}
			}
		}
		e.unsupp("addr.: no field %s", args[1].Atom)
		return tv{Val{"nil", "Ref"}, nil}
	case "len":
		x := e.autoDeref(e.eval(args[0], env), env)
		switch x.v.S {
		case "Slice":
			return tv{Val{app("slen", x.v.T), "Int"}, types.Typ[types.Int]}
		case "Str":
			return tv{Val{app("strlen", x.v.T), "Int"}, types.Typ[types.Int]}
		}
		e.unsupp("len of %s (%s)", args[0], x.v.S)
		return tv{Val{"0", "Int"}, nil}
	case "cap":
		x := e.autoDeref(e.eval(args[0], env), env)
		return tv{Val{app("scap", x.v.T), "Int"}, types.Typ[types.Int]}
	case "arr":
		x := e.autoDeref(e.eval(args[0], env), env)
		return tv{Val{app("sarr", x.v.T), "Ref"}, nil}
	case "off":
		x := e.autoDeref(e.eval(args[0], env), env)
		return tv{Val{app("soff", x.v.T), "Int"}, nil}
	case "at":
		x := e.autoDeref(e.eval(args[0], env), env)
		i := e.eval(args[1], env)
		if x.v.S == "Str" {
			return tv{Val{app("strat", x.v.T, i.v.T), "Int"}, types.Typ[types.Uint8]}
		}
		st, ok := under(x.t).(*types.Slice)
		if !ok {
			e.unsupp("at: %s is not a slice", args[0])
			return tv{Val{"0", "Int"}, nil}
		}
		addr := app("elem", app("sarr", x.v.T), e.ixAdd(app("soff", x.v.T), i.v.T))
		if srt := e.sortOf(st.Elem()); (srt == "Ref" || srt == "Slice") && env.sideOK() {
			e.loadedRefFacts(env.heap, cellKey(st.Elem()), srt, addr)
		}
		lv := e.load(env.heap, addr, nil, st.Elem())
		lv = e.nameLoaded(env, e.sortOf(st.Elem()), lv)
		if env.sideOK() {
			e.sideFact(env, e.typeFacts(lv, st.Elem()))
		}
		return tv{Val{lv, e.sortOf(st.Elem())}, st.Elem()}
	case "deref":
		x := e.eval(args[0], env)
		pt, ok := under(x.t).(*types.Pointer)
		if !ok {
			e.unsupp("deref: %s is not a pointer", args[0])
			return x
		}
		if srt := e.sortOf(pt.Elem()); (srt == "Ref" || srt == "Slice") && env.sideOK() {
			e.loadedRefFacts(env.heap, cellKey(pt.Elem()), srt, x.v.T)
		}
		lv := e.load(env.heap, x.v.T, nil, pt.Elem())
		lv = e.nameLoaded(env, e.sortOf(pt.Elem()), lv)
		if env.sideOK() {
			e.sideFact(env, e.typeFacts(lv, pt.Elem()))
		}
		return tv{Val{lv, e.sortOf(pt.Elem())}, pt.Elem()}
	case "old":
		n := *env
		n.heap = env.old
		return e.eval(args[0], &n)
	case "nil?":
		x := e.eval(args[0], env)
		switch x.v.S {
		case "Slice":
			return tv{Val{app("=", app("sarr", x.v.T), "nil"), "Bool"}, nil}
		case "Ref":
			return tv{Val{app("=", x.v.T, "nil"), "Bool"}, nil}
		}
		e.unsupp("nil? on %s", x.v.S)
		return tv{Val{"false", "Bool"}, nil}
	case "fresh":
		x := e.autoDerefNo(e.eval(args[0], env))
		a0 := env.names["A0"].val.T
		switch x.v.S {
		case "Slice":
			return tv{Val{app(">", e.rootOf(app("sarr", x.v.T)), a0), "Bool"}, nil}
		case "Ref":
			return tv{Val{app(">", e.rootOf(x.v.T), a0), "Bool"}, nil}
		}
		return tv{Val{"true", "Bool"}, nil}
	case "anow":
		// the allocation counter of the state the clause is evaluated in (an object allocated so far has rootid <= it)
		return tv{Val{e.allocCounter(env.heap), "Int"}, nil}
	case "allocated":
		x := e.eval(args[0], env)
		return tv{Val{e.refOld(x.v, env.heap), "Bool"}, nil}
	case "forall", "exists":
		if h == "forall" {
			if t, ok := e.expandSmallForall(args, env); ok {
				return tv{Val{t, "Bool"}, nil}
			}
		}
		n := *env
		n.names = map[string]binding{}
		for k, v := range env.names {
			n.names[k] = v
		}
		var bs []string
		n.bound = map[string]bool{}
		for k := range env.bound {
			n.bound[k] = true
		}
		for _, b := range args[0].List {
			nm, srt := b.List[0].Atom, b.List[1].String()
			n.names[nm] = binding{Val{nm, srt}, nil}
			n.bound[nm] = true
			bs = append(bs, fmt.Sprintf("(%s %s)", nm, srt))
		}
		body := e.eval(args[1], &n)
		if h == "forall" && e.ct != nil && e.ct.Opts["forall-patterns"] != "" {
			var names []string
			for _, b := range args[0].List {
				names = append(names, b.List[0].Atom)
			}
			if pats := selectPatterns(body.v.T, names); len(pats) > 0 {
				return tv{Val{fmt.Sprintf("(forall (%s) (! %s %s))", strings.Join(bs, " "), body.v.T, strings.Join(pats, " ")), "Bool"}, nil}
			}
		}
		return tv{Val{fmt.Sprintf("(%s (%s) %s)", h, strings.Join(bs, " "), body.v.T), "Bool"}, nil}
	case "let":
		// bindings are substituted (side facts emitted while evaluating the body must not mention a bound name)
		n := env
		for _, b := range args[0].List {
			x := e.eval(b.List[1], env)
			n = n.with(b.List[0].Atom, binding{x.v, x.t})
		}
		return e.eval(args[1], n)
	case "H":
		key := strings.Trim(args[0].Atom, "\"")
		srt, ok := e.heapSort[key]
		if !ok {
			if len(args) > 1 {
				srt = args[1].String()
			} else {
				e.unsupp("H: unknown heap key %s", key)
				srt = "Int"
			}
		}
		return tv{Val{e.heapGet(env.heap, key, srt), "(Array Ref " + srt + ")"}, nil}
	case "has-type":
		// (has-type e <go type>): the interface value e holds a value of exactly that dynamic type
		x := e.eval(args[0], env)
		t := e.w.lookupType(args[1].Atom)
		if t == nil {
			e.unsupp("has-type: unknown type %s", args[1].Atom)
			return tv{Val{"true", "Bool"}, nil}
		}
		return tv{Val{and(app("distinct", x.v.T, "nil"), app("=", app("dyntype", x.v.T), ilit(e.typeID(t)))), "Bool"}, nil}
	case "unbox":
		x := e.eval(args[0], env)
		t := e.w.lookupType(args[1].Atom)
		return tv{Val{app("unboxRef", x.v.T), "Ref"}, t}
	case "bytes":
		// (bytes e): content of byte slice e as a byte-string term; (bytes e K): the same, read from the byte cells, for
		// slices of at most K bytes (array-mode bridge)
		x := e.autoDeref(e.eval(args[0], env), env)
		if x.v.S == "Str" {
			e.needB = true
			return tv{Val{app("bstr", x.v.T), "B"}, nil}
		}
		if x.v.S != "Slice" {
			e.unsupp("bytes: %s is not a byte slice", args[0])
			return tv{Val{"beps", "B"}, nil}
		}
		if len(args) > 1 {
			k, _ := strconv.Atoi(args[1].Atom)
			return tv{Val{e.bytesExpand(env.heap, x.v.T, k), "B"}, nil}
		}
		if !e.token && env.owner == e.name && e.ct != nil && e.ct.Opts["bytes-bound"] != "" {
			// inside an array-mode function the content of a (short) slice is read from the byte cells: this is the
			// definition of the abstraction that callers see as (bytes result)
			k, _ := strconv.Atoi(e.ct.Opts["bytes-bound"])
			return tv{Val{e.bytesExpand(env.heap, x.v.T, k), "B"}, nil}
		}
		if len(env.bound) > 0 {
			// under a binder the term may mention bound variables: never name it
			return tv{Val{e.sel(e.bytesHeap(env.heap), x.v.T), "B"}, nil}
		}
		bt := e.tokBytes(env.heap, x.v.T)
		if env.sideOK() {
			e.sideFact(env, app("=", app("blen", bt), app("slen", x.v.T))) // representation invariant of the byte-string view
		}
		return tv{Val{bt, "B"}, nil}
	case "ghost":
		// (ghost NAME): an integer ghost variable of the verification (no counterpart in the program state)
		key := "$s:g:" + args[0].Atom
		e.heapSort[key] = "Int"
		return tv{Val{e.heapGet(env.heap, key, "Int"), "Int"}, nil}
	case "fnid", "fnrecv":
		x := e.eval(args[0], env)
		if h == "fnid" {
			return tv{Val{app("fnid", x.v.T), "Int"}, nil}
		}
		return tv{Val{app("fnrecv", x.v.T), "Ref"}, nil}
	case "fn-id":
		// (fn-id "<short function name>"): the identity of that function as a function value
		return tv{Val{ilit(globalID("func:" + strings.Trim(args[0].Atom, "\""))), "Int"}, nil}
	case "rem":
		e.needB = true
		x := e.eval(args[0], env)
		rt := app("select", e.heapGet(env.heap, "$rem", "B"), x.v.T)
		if env.sideOK() {
			// what a reader still holds is a finite byte string (assumption of the reader model): its length fits an int64
			e.sideFact(env, app("<=", app("blen", rt), "4611686018427387904"))
		}
		return tv{Val{rt, "B"}, nil}
	case "cast":
		// (cast <go type> e): give an untyped reference its Go type so that fields can be selected
		t := e.w.lookupType(args[0].Atom)
		x := e.eval(args[1], env)
		if t == nil {
			e.unsupp("cast: unknown type %s", args[0].Atom)
			return x
		}
		return tv{x.v, t}
	case "mapget":
		// (mapget m k GoValueType-sort) : value stored under key k
		m := e.eval(args[0], env)
		k := e.eval(args[1], env)
		srt := "Ref"
		if len(args) > 2 {
			srt = args[2].String()
		}
		return tv{Val{e.mapGet(env.heap, m.v, k.v, srt), srt}, nil}
	case "maphas":
		m := e.eval(args[0], env)
		k := e.eval(args[1], env)
		return tv{Val{e.mapHas(env.heap, m.v, k.v), "Bool"}, nil}
	case "consumed":
		x := e.eval(args[0], env)
		t := app("select", e.heapGet(env.heap, "$consumed", "Int"), x.v.T)
		if env.sideOK() {
			// assumed: no reader ever delivers 2^62 bytes
			e.assert(and(app("<=", "0", t), app("<=", t, "4611686018427387904")))
			e.trustedUsed["assumed: an io.Reader delivers fewer than 2^62 bytes in total (ghost byte counter stays in int64 range)"] = true
		}
		return tv{Val{t, "Int"}, nil}
	case "limit":
		x := e.eval(args[0], env)
		return tv{Val{app("select", e.heapGet(env.heap, "$limit", "Int"), x.v.T), "Int"}, nil}
	case "sblen":
		x := e.eval(args[0], env)
		return tv{Val{app("select", e.heapGet(env.heap, "$sb", "Int"), x.v.T), "Int"}, nil}
	case "bigval":
		x := e.eval(args[0], env)
		return tv{Val{e.sel(e.heapGet(env.heap, "$big", "Int"), x.v.T), "Int"}, nil}
	case "held":
		// ghost lock state: (held mu-owner) -> 0 none, 1 read, 2 write
		x := e.eval(args[0], env)
		return tv{Val{app("select", e.heapGet(env.heap, "$lock", "Int"), x.v.T), "Int"}, nil}
	}
	if strings.HasPrefix(h, "spec.") {
		return e.evalSpec(strings.TrimPrefix(h, "spec."), args, env)
	}
	// SMT operator
	var ts []string
	var lastT types.Type
	for _, a := range args {
		x := e.eval(a, env)
		ts = append(ts, x.v.T)
		lastT = x.t
	}
	switch h {
	case "=", "distinct", "<", "<=", ">", ">=", "and", "or", "not", "=>", "xor":
		// comparing a slice with nil: use the header
		return tv{Val{app(h, ts...), "Bool"}, nil}
	case "ite":
		x := e.eval(args[1], env)
		return tv{Val{app(h, ts...), x.v.S}, x.t}
	case "+", "-", "*", "div", "mod", "abs":
		srt := "Int"
		for _, a := range args {
			if x := e.eval(a, env); x.v.S == "Real" {
				srt = "Real"
			}
		}
		return tv{Val{app(h, ts...), srt}, nil}
	case "/", "to_real":
		return tv{Val{app(h, ts...), "Real"}, nil}
	case "to_int":
		return tv{Val{app(h, ts...), "Int"}, nil}
	case "select":
		if len(ts) == 2 && len(args[0].List) > 0 && args[0].List[0].Atom == "H" {
			// a read of a heap: goes through the framed-havoc reader like every load of the program
			return tv{Val{e.sel(ts[0], ts[1]), "Int"}, lastT}
		}
		return tv{Val{app(h, ts...), "Int"}, lastT}
	case "emb", "elem", "obj":
		return tv{Val{app(h, ts...), "Ref"}, nil}
	case "mkslice":
		return tv{Val{app(h, ts...), "Slice"}, nil}
	case "rootid", "oid", "eidx", "efld", "slen", "scap", "soff", "strlen", "dyntype":
		return tv{Val{app(h, ts...), "Int"}, nil}
	case "sarr", "ebase", "epar":
		return tv{Val{app(h, ts...), "Ref"}, nil}
	case "bitand", "bitor", "bitxor", "bitandnot", "shl", "shr":
		// the uninterpreted bit operations of the prelude (the same symbols the encoder uses for & | ^ &^ << >>)
		return tv{Val{app(h, ts...), "Int"}, nil}
	}
	if srt, ok := bOps[h]; ok {
		e.needB = true
		return tv{Val{app(h, ts...), srt}, nil}
	}
	// user-declared SMT function from `//@ smt` lines: sort unknown -> look up in raw declarations
	if srt, ok := e.rawFunSort(h); ok {
		return tv{Val{app(h, ts...), srt}, nil}
	}
	e.unsupp("contract of %s: unknown operator %s", env.owner, h)
	return tv{Val{"true", "Bool"}, nil}
}

func (e *Enc) rawFunSort(name string) (string, bool) {
	if d, ok := e.cs.SmtFuns[name]; ok {
		if es, err := parseSxAll(d[0]); err == nil && len(es) == 1 && len(es[0].List) >= 4 {
			return es[0].List[3].String(), true
		}
	}
	for _, l := range e.cs.Raw {
		es, err := parseSxAll(l)
		if err != nil {
			continue
		}
		for _, x := range es {
			hd := x.head()
			if (hd == "declare-fun" || hd == "define-fun" || hd == "define-fun-rec") && len(x.List) >= 4 && x.List[1].Atom == name {
				return x.List[3].String(), true
			}
			if hd == "declare-const" && len(x.List) >= 3 && x.List[1].Atom == name {
				return x.List[2].String(), true
			}
		}
	}
	return "", false
}

func (e *Enc) evalAtom(a string, env *evalEnv) tv {
	if a == "true" || a == "false" {
		return tv{Val{a, "Bool"}, types.Typ[types.Bool]}
	}
	if a == "nil" {
		return tv{Val{"nil", "Ref"}, nil}
	}
	if a == "beps" {
		e.needB = true
		return tv{Val{"beps", "B"}, nil}
	}
	if a == "nilslice" || a == "emptystr" {
		return tv{Val{a, map[string]string{"nilslice": "Slice", "emptystr": "Str"}[a]}, nil}
	}
	if _, err := strconv.ParseInt(a, 0, 64); err == nil || isBigIntLit(a) {
		if strings.HasPrefix(a, "0x") {
			n, _ := strconv.ParseUint(a[2:], 16, 64)
			return tv{Val{strconv.FormatUint(n, 10), "Int"}, nil}
		}
		if strings.HasPrefix(a, "-") {
			return tv{Val{"(- " + a[1:] + ")", "Int"}, nil}
		}
		return tv{Val{a, "Int"}, nil}
	}
	if strings.HasPrefix(a, "\"") {
		return tv{Val{e.strConst(strings.Trim(a, "\"")), "Str"}, types.Typ[types.String]}
	}
	if _, err := strconv.ParseFloat(a, 64); err == nil && strings.Contains(a, ".") {
		return tv{Val{a, "Real"}, nil}
	}
	if b, ok := env.names[a]; ok {
		return tv{b.val, b.typ}
	}
	// package-level variable or constant of the contract's package
	if env.pkg != nil {
		if obj := env.pkg.Scope().Lookup(a); obj != nil {
			switch o := obj.(type) {
			case *types.Const:
				c := ssa.NewConst(o.Val(), o.Type())
				return tv{e.constVal(c), o.Type()}
			case *types.Var:
				for _, p := range e.w.Pkgs {
					if p.Pkg == env.pkg {
						if g, ok := p.Members[a].(*ssa.Global); ok {
							if e.w.NonNilGlobal[g] {
								// init-only package-level error value: the same fixed object the code sees when it loads it
								gid := ilit(globalID("val:" + g.String()))
								if !e.gidNoted[gid] {
									if e.gidNoted == nil {
										e.gidNoted = map[string]bool{}
									}
									e.gidNoted[gid] = true
									e.globalFacts++
									e.assert(app("=", "(rootid (obj "+gid+"))", gid)) // a fixed (negative) identity: older than every allocation
									e.globalFacts--
								}
								return tv{Val{app("obj", gid), "Ref"}, o.Type()}
							}
							gv := e.val(g)
							return tv{Val{e.load(env.heap, gv.T, g, o.Type()), e.sortOf(o.Type())}, o.Type()}
						}
					}
				}
			}
		}
	}
	if srt, ok := e.rawFunSort(a); ok {
		return tv{Val{a, srt}, nil}
	}
	e.unsupp("contract of %s: unknown name %s", env.owner, a)
	return tv{Val{"0", "Int"}, nil}
}

func isBigIntLit(a string) bool {
	if a == "" {
		return false
	}
	for i, c := range a {
		if c == '-' && i == 0 && len(a) > 1 {
			continue
		}
		if c < '0' || c > '9' {
			return false
		}
	}
	return true
}

// autoDeref: a pointer to a named slice/string (e.g. *bscript.Script) used where the slice is expected.
func (e *Enc) autoDeref(x tv, env *evalEnv) tv {
	if x.v.S == "Ref" && x.t != nil {
		if pt, ok := under(x.t).(*types.Pointer); ok {
			switch under(pt.Elem()).(type) {
			case *types.Slice, *types.Basic:
				if srt := e.sortOf(pt.Elem()); (srt == "Ref" || srt == "Slice") && env.sideOK() {
					e.loadedRefFacts(env.heap, cellKey(pt.Elem()), srt, x.v.T)
				}
				lv := e.load(env.heap, x.v.T, nil, pt.Elem())
				lv = e.nameLoaded(env, e.sortOf(pt.Elem()), lv)
				if env.sideOK() {
					e.sideFact(env, e.typeFacts(lv, pt.Elem()))
				}
				return tv{Val{lv, e.sortOf(pt.Elem())}, pt.Elem()}
			}
		}
	}
	return x
}

func (e *Enc) autoDerefNo(x tv) tv { return x }

func (e *Enc) fieldOf(base tv, field string, env *evalEnv) tv {
	if base.t == nil {
		e.unsupp("contract of %s: field %s of untyped expression", env.owner, field)
		return tv{Val{"0", "Int"}, nil}
	}
	st, name := structOf(base.t)
	if st == nil {
		e.unsupp("contract of %s: field %s of non-struct %s", env.owner, field, base.t)
		return tv{Val{"0", "Int"}, nil}
	}
	_, isPtr := under(base.t).(*types.Pointer)
	for i := 0; i < st.NumFields(); i++ {
		if st.Field(i).Name() != field {
			continue
		}
		ft := st.Field(i).Type()
		if !isPtr {
			s := e.structSort(base.t, st)
			return tv{Val{fmt.Sprintf("(%s_f%d %s)", s, i, base.v.T), e.sortOf(ft)}, ft}
		}
		addr := app("emb", base.v.T, ilit(int64(i)))
		switch under(ft).(type) {
		case *types.Struct:
			return tv{Val{addr, "Ref"}, types.NewPointer(ft)}
		case *types.Array:
			return tv{Val{addr, "Ref"}, types.NewPointer(ft)}
		}
		if srt := e.sortOf(ft); (srt == "Ref" || srt == "Slice") && env.sideOK() {
			e.loadedRefFacts(env.heap, e.w.fieldKey(name, st, i), srt, addr)
		}
		lv := e.loadField(env.heap, base.v.T, name, st, i)
		lv = e.nameLoaded(env, e.sortOf(ft), lv)
		if env.sideOK() {
			e.sideFact(env, e.typeFacts(lv, ft)) // heap cells hold well-typed values
			if ax := e.cs.FieldAssume[name+"."+field]; ax != nil && !e.inFieldAssume {
				// assumed fact about every value of this field (listed in the evidence)
				e.inFieldAssume = true
				fenv := &evalEnv{names: map[string]binding{"value": {Val{lv, e.sortOf(ft)}, ft}}, heap: env.heap, old: env.heap, owner: "field-assume", pkg: env.pkg}
				e.sideFact(env, e.evalBool(ax, fenv))
				e.inFieldAssume = false
				e.trustedUsed["assumed field fact "+name+"."+field+": "+ax.String()] = true
			}
		}
		return tv{Val{lv, e.sortOf(ft)}, ft}
	}
	// promoted field through an embedded struct
	for i := 0; i < st.NumFields(); i++ {
		if st.Field(i).Embedded() {
			inner := e.fieldOf(base, st.Field(i).Name(), env)
			if s2, _ := structOf(inner.t); s2 != nil {
				for j := 0; j < s2.NumFields(); j++ {
					if s2.Field(j).Name() == field {
						return e.fieldOf(inner, field, env)
					}
				}
			}
		}
	}
	e.unsupp("contract of %s: no field %s in %s", env.owner, field, name)
	return tv{Val{"0", "Int"}, nil}
}

// evalSpec applies a declared spec function; the heaps it reads are passed as extra leading arguments.
func (e *Enc) evalSpec(name string, args []*Sx, env *evalEnv) tv {
	sf := e.cs.Specs[name]
	if sf == nil {
		e.unsupp("contract of %s: unknown spec function %s", env.owner, name)
		return tv{Val{"true", "Bool"}, nil}
	}
	if len(args) != len(sf.Params) {
		e.unsupp("spec %s: %d arguments, want %d", name, len(args), len(sf.Params))
		return tv{Val{"true", "Bool"}, nil}
	}
	if sf.FoldOp != "" {
		return e.evalFold(sf, args, env)
	}
	if sf.Opaque && !e.defineOpaque {
		return e.evalOpaque(sf, args, env)
	}
	if sf.Def != nil {
		// defined spec functions are expanded in place (macro): their heap reads then see the caller's frames
		n := *env
		n.names = map[string]binding{}
		for k, b := range env.names {
			n.names[k] = b
		}
		for i, p := range sf.Params {
			a := e.eval(args[i], env)
			_, gt := e.specParamType(p.Sort)
			if gt == nil {
				gt = a.t
			}
			if len(env.bound) == 0 && strings.Count(sf.Def.String(), p.Name) > 2 {
				// the body mentions the parameter several times: pass a name for a long argument, not its text
				a.v.T = e.nameTerm("sa", a.v.S, a.v.T)
			}
			n.names[p.Name] = binding{a.v, gt}
		}
		n.owner = "spec " + name
		r := e.eval(sf.Def, &n)
		if len(env.bound) == 0 && sf.Ret != "Bool" {
			r.v.T = e.nameTerm("sv", sf.Ret, r.v.T)
		}
		return tv{Val{r.v.T, sf.Ret}, nil}
	}
	e.useSpec(sf)
	var ts []string
	for _, k := range sf.Reads {
		srt := e.specHeapSort(k)
		ts = append(ts, e.heapGet(env.heap, k, srt))
	}
	for _, a := range args {
		ts = append(ts, e.eval(a, env).v.T)
	}
	return tv{Val{app("spec_"+name, ts...), sf.Ret}, nil}
}

var specRefRe = regexp.MustCompile(`spec\.([A-Za-z0-9_]+)`)

// factsFor: the facts whose opaque functions are all in use in this function, as quantified assertions.
func (e *Enc) factsFor() []string {
	var out []string
	for _, f := range e.cs.Facts {
		ok := true
		for _, m := range specRefRe.FindAllStringSubmatch(f.Body.String(), -1) {
			if sf := e.cs.Specs[m[1]]; sf != nil && sf.Opaque && !e.opaqueUsed[m[1]] {
				ok = false
			}
		}
		if !ok {
			continue
		}
		if t := e.factText(f); t != "" {
			out = append(out, t)
		}
	}
	return out
}

func (e *Enc) factText(f *Fact) string {
	if e.factCache == nil {
		e.factCache = map[string]string{}
	}
	key := f.Name
	if e.defineOpaque {
		key += "#def"
	}
	if t, ok := e.factCache[key]; ok {
		return t
	}
	env := &evalEnv{names: map[string]binding{}, heap: e.entryHeap, old: e.entryHeap, owner: "fact " + f.Name, bound: map[string]bool{}}
	var bs []string
	for _, v := range f.Vars {
		env.names[v.Name] = binding{Val{v.Name, v.Sort}, nil}
		env.bound[v.Name] = true
		bs = append(bs, fmt.Sprintf("(%s %s)", v.Name, v.Sort))
	}
	n := len(e.unsupported)
	e.inFact = true
	defer func() { e.inFact = false }()
	body := e.evalBool(f.Body, env)
	var pats []string
	for _, p := range f.Patterns {
		pats = append(pats, e.eval(p, env).v.T)
	}
	if len(e.unsupported) > n {
		e.unsupported = e.unsupported[:n]
		e.factCache[key] = ""
		return ""
	}
	t := fmt.Sprintf("(forall (%s) (! %s :pattern (%s)))", strings.Join(bs, " "), body, strings.Join(pats, " "))
	if e.defineOpaque {
		t = fmt.Sprintf("(forall (%s) %s)", strings.Join(bs, " "), body)
	}
	e.factCache[key] = t
	return t
}

// expandSmallForall: (forall ((k Int)) (=> (and (<= 0 k) (< k N)) body)) where N is, at this program point, a small
// constant (the length of a literal or variadic slice): the conjunction of the instances.
func (e *Enc) expandSmallForall(args []*Sx, env *evalEnv) (string, bool) {
	if len(args) != 2 || !args[0].IsList || len(args[0].List) != 1 {
		return "", false
	}
	b := args[0].List[0]
	if !b.IsList || len(b.List) != 2 || b.List[1].String() != "Int" {
		return "", false
	}
	k := b.List[0].Atom
	imp := args[1]
	if !imp.IsList || len(imp.List) != 3 || imp.List[0].Atom != "=>" {
		return "", false
	}
	g := imp.List[1]
	if !g.IsList || len(g.List) != 3 || g.List[0].Atom != "and" {
		return "", false
	}
	lo, hi := g.List[1], g.List[2]
	if lo.String() != "(<= 0 "+k+")" || !hi.IsList || len(hi.List) != 3 || hi.List[0].Atom != "<" || hi.List[1].Atom != k {
		return "", false
	}
	if len(env.bound) != 0 {
		return "", false
	}
	bound := e.eval(hi.List[2], env).v.T
	nn := -1
	if strings.HasPrefix(bound, "(slen (mkslice ") {
		a := splitArgs(splitArgs(bound)[1])
		if len(a) == 5 {
			if v, err := strconv.Atoi(a[3]); err == nil {
				nn = v
			}
		}
	} else if strings.HasPrefix(bound, "(slen ") {
		// a named slice defined as a literal mkslice
		nm := splitArgs(bound)[1]
		if lit, ok := e.sliceLit[nm]; ok {
			nn = lit
		}
	} else if v, err := strconv.Atoi(bound); err == nil {
		nn = v
	}
	if nn < 0 || nn > 8 {
		return "", false
	}
	var cs []string
	for i := 0; i < nn; i++ {
		n := env.with(k, binding{Val{strconv.Itoa(i), "Int"}, types.Typ[types.Int]})
		cs = append(cs, e.evalBool(imp.List[2], n))
	}
	return and(cs...), true
}

// selectPatterns: explicit triggers for a quantified contract clause: every heap read `(select H addr)` whose address
// mentions all bound variables and contains no conditional, each as an alternative pattern. Without them the solvers
// choose triggers on their own, and may pick only one side of an equation between two heap reads.
func selectPatterns(body string, names []string) []string {
	var out []string
	seen := map[string]bool{}
	for i := 0; i+8 < len(body); i++ {
		if !strings.HasPrefix(body[i:], "(select ") {
			continue
		}
		depth, j := 0, i
		for ; j < len(body); j++ {
			if body[j] == '(' {
				depth++
			} else if body[j] == ')' {
				depth--
				if depth == 0 {
					break
				}
			}
		}
		if j >= len(body) {
			break
		}
		t := body[i : j+1]
		if seen[t] || strings.Contains(t, "(ite ") || strings.Contains(t, "(forall ") || strings.Contains(t, "(exists ") {
			continue
		}
		all := true
		for _, n := range names {
			if !regexp.MustCompile(`[ (]` + regexp.QuoteMeta(n) + `[ )]`).MatchString(t) {
				all = false
			}
		}
		if !all {
			continue
		}
		// keep only outermost such reads
		inner := false
		for _, o := range out {
			if strings.Contains(o, t) {
				inner = true
			}
		}
		if inner {
			continue
		}
		seen[t] = true
		out = append(out, ":pattern ("+t+")")
		if len(out) >= 6 {
			break
		}
	}
	return out
}

// evalOpaque: an application of an opaque pure spec function. Revealed (contract `opt reveal NAME`): the application is
// also equated with its definition, instance by instance.
func (e *Enc) evalOpaque(sf *SpecFn, args []*Sx, env *evalEnv) tv {
	if e.opaqueUsed == nil {
		e.opaqueUsed = map[string]bool{}
	}
	if !e.opaqueUsed[sf.Name] {
		e.opaqueUsed[sf.Name] = true
		var ps []string
		for _, p := range sf.Params {
			ps = append(ps, p.Sort)
		}
		e.specDecls = append(e.specDecls, fmt.Sprintf("(declare-fun spec_%s (%s) %s)", sf.Name, strings.Join(ps, " "), sf.Ret))
	}
	if sf.Ret == "B" {
		e.needB = true
	}
	var as []string
	n := *env
	n.names = map[string]binding{}
	for k, b := range env.names {
		n.names[k] = b
	}
	for i, p := range sf.Params {
		a := e.eval(args[i], env)
		if len(env.bound) == 0 {
			a.v.T = e.nameTerm("sa", a.v.S, a.v.T)
		}
		as = append(as, a.v.T)
		n.names[p.Name] = binding{Val{a.v.T, p.Sort}, nil}
	}
	term := app("spec_"+sf.Name, as...)
	revealed := false
	if e.ct != nil && !e.inFact {
		for _, r := range strings.Fields(e.ct.Opts["reveal"]) {
			if r == sf.Name || r == "all" {
				revealed = true
			}
		}
	}
	if revealed {
		n.owner = "spec " + sf.Name
		body := e.eval(sf.Def, &n)
		if len(env.bound) != 0 {
			return tv{Val{body.v.T, sf.Ret}, nil}
		}
		if e.foldDone == nil {
			e.foldDone = map[string]bool{}
		}
		if !e.foldDone["reveal:"+term] {
			e.foldDone["reveal:"+term] = true
			e.assertDefnFact(app("=", term, body.v.T))
		}
	}
	return tv{Val{term, sf.Ret}, nil}
}

// evalFold: F(H, args, k) for a fold spec, plus the unfolding of F at k as a side fact.
func (e *Enc) evalFold(sf *SpecFn, args []*Sx, env *evalEnv) tv {
	e.useSpec(sf)
	var hs, as []string
	for _, k := range sf.Reads {
		hs = append(hs, e.heapGet(env.heap, k, e.specHeapSort(k)))
	}
	n := *env
	n.names = map[string]binding{}
	for k, b := range env.names {
		n.names[k] = b
	}
	for i, p := range sf.Params {
		a := e.eval(args[i], env)
		_, gt := e.specParamType(p.Sort)
		if gt == nil {
			gt = a.t
		}
		n.names[p.Name] = binding{a.v, gt}
		as = append(as, a.v.T)
	}
	kT := as[len(as)-1]
	term := app("spec_"+sf.Name, append(append([]string{}, hs...), as...)...)
	memo := term
	if len(env.bound) == 0 {
		term = e.nameTerm("sf", sf.Ret, term)
	}
	if e.foldDone == nil {
		e.foldDone = map[string]bool{}
	}
	if e.curBlock != nil {
		memo = fmt.Sprintf("b%d:%s", e.curBlock.Index, memo) // side facts are guarded by the block they are produced in
	}
	if !e.foldDone[memo] {
		e.foldDone[memo] = true
		prevArgs := append(append([]string{}, hs...), as[:len(as)-1]...)
		prevArgs = append(prevArgs, app("-", kT, "1"))
		n.names["j"] = binding{Val{app("-", kT, "1"), "Int"}, types.Typ[types.Int]}
		n.owner = "spec " + sf.Name
		saved := e.readTrace
		e.readTrace = map[string]bool{}
		el := e.eval(sf.Def, &n)
		for k := range e.readTrace {
			ok := false
			for _, r := range sf.Reads {
				if r == k {
					ok = true
				}
			}
			if !ok && k != "$A" {
				e.unsupp("fold spec %s: element reads heap %s which is not in its reads list", sf.Name, k)
			}
		}
		e.readTrace = saved
		e.sideFact(env, app("=", term, fmt.Sprintf("(ite (<= %s 0) %s (%s %s %s))", kT, sf.FoldUnit, sf.FoldOp, app("spec_"+sf.Name, prevArgs...), el.v.T)))
		// the empty fold (so that folds over one-element literals unfold completely)
		zeroArgs := append(append([]string{}, hs...), as[:len(as)-1]...)
		e.sideFact(env, app("=", app("spec_"+sf.Name, append(zeroArgs, "0")...), sf.FoldUnit))
		e.foldFrames(sf, hs, as, &n, env)
	}
	return tv{Val{term, sf.Ret}, nil}
}

// foldInst: one evaluated instance of a fold spec (heaps, arguments, and the environment its elements are read in).
type foldInst struct {
	key  string // heaps and arguments without k
	hs   []string
	as   []string
	env  *evalEnv
}

// foldFrames relates this instance of a fold to the earlier instances of the same fold over other heaps/arguments:
//   (forall j in [0,m): elem'(j) = elem(j))  =>  F'(m) = F(m)        (m: the index of the earlier instance)
// (induction over m; the fold is a function of its first m elements only). The quantifier is in negative position, so
// it is skolemised here: one fresh index per pair.
func (e *Enc) foldFrames(sf *SpecFn, hs, as []string, n *evalEnv, env *evalEnv) {
	key := strings.Join(hs, " ") + " | " + strings.Join(as[:len(as)-1], " ")
	if e.foldInsts == nil {
		e.foldInsts = map[string][]*foldInst{}
	}
	snap := *n
	snap.heap = n.heap.clone()
	if n.old != nil {
		snap.old = n.old.clone()
	}
	snap.names = map[string]binding{}
	for k, b := range n.names {
		snap.names[k] = b
	}
	cur := &foldInst{key: key, hs: hs, as: as, env: &snap}
	prevs := e.foldInsts[sf.Name]
	seen := map[string]bool{}
	cnt := 0
	for i := len(prevs) - 1; i >= 0 && cnt < 6; i-- {
		p := prevs[i]
		pk := p.key + " @ " + p.as[len(p.as)-1]
		if p.key == key || seen[pk] || strings.Join(p.as[:len(p.as)-1], " ") != strings.Join(as[:len(as)-1], " ") {
			continue // only the same fold over other heaps
		}
		seen[pk] = true
		cnt++
		m := p.as[len(p.as)-1]
		j := e.fresh("foldj", "Int")
		elAt := func(in *evalEnv) string {
			c := *in
			c.names = map[string]binding{}
			for k, b := range in.names {
				c.names[k] = b
			}
			c.names["j"] = binding{Val{j, "Int"}, types.Typ[types.Int]}
			// side facts (type invariants of the cells read) hold for every cell of a typed heap, also at an arbitrary index
			c.owner = "spec " + sf.Name
			return e.eval(sf.Def, &c).v.T
		}
		eNew, eOld := elAt(&snap), elAt(p.env)
		fNew := app("spec_"+sf.Name, append(append(append([]string{}, hs...), as[:len(as)-1]...), m)...)
		fOld := app("spec_"+sf.Name, append(append(append([]string{}, p.hs...), p.as[:len(p.as)-1]...), m)...)
		e.sideFact(env, or(and(app("<=", "0", j), app("<", j, m), app("distinct", eNew, eOld)), app("=", fNew, fOld)))
	}
	e.foldInsts[sf.Name] = append(prevs, cur)
}

// specHeapSort: "F:bt.Tx.Inputs:Slice" style keys carry their sort after the last colon when it is not yet known.
func (e *Enc) specHeapSort(k string) string {
	if s, ok := e.heapSort[k]; ok {
		return s
	}
	if s, ok := e.w.keySort(e, k); ok {
		return s
	}
	e.unsupp("spec: cannot determine sort of heap key %s", k)
	return "Int"
}

func (e *Enc) useSpec(sf *SpecFn) {
	if e.specUsed == nil {
		e.specUsed = map[string]bool{}
	}
	if e.specUsed[sf.Name] {
		return
	}
	e.specUsed[sf.Name] = true
	var ps []string
	var pnames []string
	for _, k := range sf.Reads {
		ps = append(ps, arrSort(k, e.specHeapSort(k)))
		pnames = append(pnames, "h_"+sanitize(k))
	}
	if sf.Def == nil || sf.FoldOp != "" {
		for _, p := range sf.Params {
			srt, _ := e.specParamType(p.Sort)
			ps = append(ps, srt)
		}
		e.specDecls = append(e.specDecls, fmt.Sprintf("(declare-fun spec_%s (%s) %s)", sf.Name, strings.Join(ps, " "), sf.Ret))
		return
	}
	// definition: evaluated in an environment whose heap is made of the parameters
	h := &Heap{m: map[string]string{}, ep: &epoch{id: -1, memo: map[string]string{}}}
	var plist []string
	for i, k := range sf.Reads {
		h.m[k] = pnames[i]
		plist = append(plist, fmt.Sprintf("(%s %s)", pnames[i], ps[i]))
	}
	env := &evalEnv{names: map[string]binding{}, heap: h, old: h, owner: "spec " + sf.Name}
	if e.fn.Pkg != nil {
		env.pkg = e.fn.Pkg.Pkg
	}
	for _, p := range sf.Params {
		srt, gt := e.specParamType(p.Sort)
		env.names[p.Name] = binding{Val{p.Name, srt}, gt}
		plist = append(plist, fmt.Sprintf("(%s %s)", p.Name, srt))
	}
	body := e.eval(sf.Def, env)
	e.specDecls = append(e.specDecls, fmt.Sprintf("(define-fun spec_%s (%s) %s %s)", sf.Name, strings.Join(plist, " "), sf.Ret, body.v.T))
}

// specParamType: a parameter sort may be an SMT sort or a Go type written go:<pkg>.<Type> / go:*<pkg>.<Type>.
func (e *Enc) specParamType(s string) (string, types.Type) {
	if !strings.HasPrefix(s, "go:") {
		return s, nil
	}
	t := e.w.lookupType(strings.TrimPrefix(s, "go:"))
	if t == nil {
		e.unsupp("spec: unknown Go type %s", s)
		return "Int", nil
	}
	return e.sortOf(t), t
}

// evalClause evaluates a contract clause; a clause that came from a pattern block and does not resolve for this function
// (unknown name, wrong type) is dropped instead of making the function unsupported.
func (e *Enc) evalClause(ct *Contract, sx *Sx, env *evalEnv) (string, bool) {
	if ct == nil || !ct.Lenient[sx] {
		return e.evalBool(sx, env), true
	}
	n := len(e.unsupported)
	na := len(e.asserts)
	t := e.evalBool(sx, env)
	if len(e.unsupported) > n {
		e.unsupported = e.unsupported[:n]
		e.rollback(na) // side facts emitted while evaluating the dropped clause go with it
		return "true", false
	}
	return t, true
}
