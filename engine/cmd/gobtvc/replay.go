package main

import (
	"bytes"
	"context"
	"encoding/json"
	"flag"
	"fmt"
	"go/types"
	"os"
	"os/exec"
	"path/filepath"
	"regexp"
	"strconv"
	"strings"
	"time"

	"golang.org/x/tools/go/ssa"
)

type ReplayFile struct {
	Property   string            `json:"property"`
	Obligation string            `json:"obligation"`
	Class      string            `json:"class"`
	At         string            `json:"at"`
	Function   string            `json:"function"`
	Status     string            `json:"solver_status"`
	Solver     string            `json:"solver"`
	SMTFile    string            `json:"smt_file"`
	Output     string            `json:"solver_output"`
	Inputs     map[string]string `json:"inputs,omitempty"` // Go expressions for the parameters
	GoTest     string            `json:"go_test,omitempty"`
	Ran        bool              `json:"ran_against_real_code"`
	Confirmed  bool              `json:"confirmed"`
	RunOutput  string            `json:"run_output,omitempty"`
	Note       string            `json:"note"`
	Path       string            `json:"-"`
}

func writeReplay(w *World, outDir string, cone *Cone, r *Result, repo string) *ReplayFile {
	rf := &ReplayFile{Property: cone.ID, Obligation: r.Obl.Name, Class: r.Obl.Class, At: r.Obl.Pos, Function: r.Obl.Func,
		Status: r.Status, Solver: r.Solver, SMTFile: r.File, Output: truncate(r.Output, 4000)}
	rf.Path = filepath.Join(outDir, "replay", sanitize(r.Obl.Name)+".json")
	if len(rf.Path) > 200 {
		rf.Path = filepath.Join(outDir, "replay", fmt.Sprintf("%s_%x.json", sanitize(r.Obl.Name)[:120], hashStr(r.Obl.Name)))
	}
	defer func() {
		b, _ := json.MarshalIndent(rf, "", " ")
		os.WriteFile(rf.Path, b, 0o644)
	}()
	if r.Status != "sat" {
		rf.Note = "the solver gave no model (" + r.Status + "): the obligation, discharged on the unchanged tree, is no longer provable"
		return rf
	}
	fn := w.Funcs[r.Obl.Func]
	if fn == nil {
		rf.Note = "function not found for replay"
		return rf
	}
	inputs, ok, why := modelInputs(w, fn, r)
	if !ok {
		rf.Note = "model found but not replayable generically: " + why
		return rf
	}
	rf.Inputs = inputs
	confirmed, ran, test, out := runReplay(w, fn, r.Obl, inputs, repo, outDir)
	rf.GoTest, rf.Ran, rf.Confirmed, rf.RunOutput = test, ran, confirmed, truncate(out, 3000)
	if r.Obl.Class == "post" && ran && !confirmed && len(r.Obl.RetTerms) > 0 {
		// functional obligation of a function over scalars: the model predicts the returned values; if the real code
		// returns exactly those on the model's input, the model is a genuine input on which the postcondition is false
		if pred, err := getValues(r.File, r.Obl.RetTerms); err == nil {
			var want []string
			okAll := true
			for i, t := range r.Obl.RetTerms {
				rt := fn.Signature.Results().At(i).Type()
				if rt.String() == "error" {
					// an error result: the model predicts whether it is nil
					nv, err := getValues(r.File, []string{"(= " + t + " nil)"})
					if err != nil {
						okAll = false
						break
					}
					if nv["(= "+t+" nil)"] == "true" {
						want = append(want, "NILERR")
					} else {
						want = append(want, "ERR")
					}
					continue
				}
				b, isB := under(rt).(*types.Basic)
				if !isB || b.Info()&(types.IsInteger|types.IsBoolean) == 0 {
					okAll = false
					break
				}
				if b.Info()&types.IsBoolean != 0 {
					want = append(want, pred[t])
				} else {
					n, ok := smtInt(pred[t])
					if !ok {
						okAll = false
						break
					}
					if lo, _, _ := intRange(rt); lo.Sign() == 0 {
						want = append(want, fmt.Sprintf("%d", uint64(n)))
					} else {
						want = append(want, fmt.Sprintf("%d", n))
					}
				}
			}
			if okAll {
				line := "GOBTVC-RESULT " + strings.Join(want, " ")
				if strings.Contains(out, line+"\n") {
					rf.Confirmed = true
					rf.Note = "the real code returns " + strings.Join(want, ", ") + " on this input, which violates the postcondition"
				}
			}
		}
	}
	if ran && !confirmed && !rf.Confirmed {
		rf.Note = "the solver's model did not make the real code fail (callee contracts are weaker than their bodies, or uninterpreted externals): reported without a failing input"
	}
	return rf
}

// ---------------------------------------------------------------------------------------------
// model -> Go inputs (generic: integers, bools, strings, byte slices, pointers to byte-slice types)

func getValues(file string, terms []string) (map[string]string, error) {
	b, err := os.ReadFile(file)
	if err != nil {
		return nil, err
	}
	src := string(b)
	src = strings.Replace(src, "(get-model)\n", "", 1)
	var q strings.Builder
	q.WriteString(src)
	for _, t := range terms {
		q.WriteString("(get-value (" + t + "))\n")
	}
	tmp := file + ".gv.smt2"
	os.WriteFile(tmp, []byte(q.String()), 0o644)
	defer os.Remove(tmp)
	ctx, cancel := context.WithTimeout(context.Background(), 30*time.Second)
	defer cancel()
	out, _ := exec.CommandContext(ctx, "z3-new", "-T:20", tmp).CombinedOutput()
	lines := strings.Split(string(out), "\n")
	if len(lines) == 0 || strings.TrimSpace(lines[0]) != "sat" {
		return nil, fmt.Errorf("solver did not reproduce sat for get-value")
	}
	res := map[string]string{}
	// answers come back in order, one s-expression each, possibly spanning lines
	rest := strings.Join(lines[1:], " ")
	es, err := parseSxAll(rest)
	if err != nil {
		return nil, err
	}
	for i, e := range es {
		if i >= len(terms) || !e.IsList || len(e.List) != 1 || len(e.List[0].List) != 2 {
			continue
		}
		res[terms[i]] = e.List[0].List[1].String()
	}
	return res, nil
}

func smtInt(s string) (int64, bool) {
	s = strings.TrimSpace(s)
	neg := false
	if strings.HasPrefix(s, "(- ") {
		neg = true
		s = strings.TrimSuffix(strings.TrimPrefix(s, "(- "), ")")
	}
	n, err := strconv.ParseInt(s, 10, 64)
	if err != nil {
		u, err2 := strconv.ParseUint(s, 10, 64)
		if err2 != nil {
			return 0, false
		}
		return int64(u), true
	}
	if neg {
		n = -n
	}
	return n, true
}

func byteSliceLike(t types.Type) bool {
	s, ok := under(t).(*types.Slice)
	return ok && typeKey(s.Elem()) == "uint8"
}

func goTypeExpr(t types.Type, pkg *types.Package) string {
	return types.TypeString(t, func(p *types.Package) string {
		if p == pkg {
			return ""
		}
		return p.Name()
	})
}

type structField struct {
	name, term string
	t          types.Type
}

type structParam struct {
	name, term string
	t          types.Type
	fields     []structField
}

func modelInputs(w *World, fn *ssa.Function, r *Result) (map[string]string, bool, string) {
	pkg := fn.Pkg.Pkg
	inputs := map[string]string{}
	type pending struct {
		name, sl string
		t     types.Type
		ptr   bool
		pn    string
	}
	var terms []string
	var pend []pending
	var structs []structParam
	pname := func(p *ssa.Parameter) string {
		if s, ok := r.Obl.ParamSubst[p.Name()]; ok {
			return s
		}
		return "p_" + sanitize(p.Name())
	}
	for _, p := range fn.Params {
		n := pname(p)
		t := p.Type()
		switch {
		case byteSliceLike(t):
			pend = append(pend, pending{p.Name(), n, t, false, n})
			terms = append(terms, "(slen "+n+")", "(= (sarr "+n+") nil)")
		default:
			if pt, ok := under(t).(*types.Pointer); ok && byteSliceLike(pt.Elem()) {
				sl := "(select H0_" + sanitize(cellKey(pt.Elem())) + " " + n + ")"
				pend = append(pend, pending{p.Name(), sl, pt.Elem(), true, n})
				terms = append(terms, "(slen "+sl+")", "(= (sarr "+sl+") nil)", "(= "+n+" nil)")
				continue
			}
			if pt, ok := under(t).(*types.Pointer); ok {
				if st, sname := structOf(pt); st != nil && sname != "" {
					// pointer to a struct of the module: built as &T{...} from the scalar fields of the model (other
					// fields zero)
					sp := structParam{name: p.Name(), term: n, t: pt.Elem()}
					for i := 0; i < st.NumFields(); i++ {
						fb, isB := under(st.Field(i).Type()).(*types.Basic)
						if !isB || fb.Info()&(types.IsInteger|types.IsBoolean) == 0 {
							continue
						}
						key := w.fieldKey(sname, st, i) // F:pkg.T.f, or the cell key T:<type> for address-taken fields
						ft := "(select H0_" + sanitize(key) + " (emb " + n + " " + fmt.Sprint(i) + "))"
						sp.fields = append(sp.fields, structField{st.Field(i).Name(), ft, st.Field(i).Type()})
					}
					structs = append(structs, sp)
					terms = append(terms, "(= "+n+" nil)")
					continue
				}
			}
			b, ok := under(t).(*types.Basic)
			if !ok {
				return nil, false, "parameter " + p.Name() + " of type " + t.String()
			}
			switch {
			case b.Info()&types.IsInteger != 0, b.Info()&types.IsBoolean != 0:
				terms = append(terms, n)
			case b.Info()&types.IsString != 0:
				terms = append(terms, "(strlen "+n+")")
			default:
				return nil, false, "parameter " + p.Name() + " of type " + t.String()
			}
		}
	}
	vals, err := getValues(r.File, terms)
	if err != nil {
		return nil, false, err.Error()
	}
	src, _ := os.ReadFile(r.File)
	for _, sp := range structs {
		if vals["(= "+sp.term+" nil)"] == "true" {
			inputs[sp.name] = "nil"
			continue
		}
		var ts []string
		var fs []structField
		for _, f := range sp.fields {
			// only fields whose heap array is declared in this query can be read from the model
			decl := f.term[len("(select "):strings.Index(f.term, " (emb")]
			if strings.Contains(string(src), "(declare-const "+decl+" ") || strings.Contains(string(src), "(declare-fun "+decl+" ") {
				ts = append(ts, f.term)
				fs = append(fs, f)
			}
		}
		var inits []string
		if len(ts) > 0 {
			fv, err := getValues(r.File, ts)
			if err != nil {
				return nil, false, err.Error()
			}
			for _, f := range fs {
				fb := under(f.t).(*types.Basic)
				if fb.Info()&types.IsBoolean != 0 {
					inits = append(inits, f.name+": "+fv[f.term])
					continue
				}
				x, ok := smtInt(fv[f.term])
				if !ok {
					continue
				}
				if lo, _, _ := intRange(f.t); lo.Sign() == 0 {
					inits = append(inits, fmt.Sprintf("%s: %s(%d)", f.name, goTypeExpr(f.t, pkg), uint64(x)))
				} else {
					inits = append(inits, fmt.Sprintf("%s: %s(%d)", f.name, goTypeExpr(f.t, pkg), x))
				}
			}
		}
		inputs[sp.name] = "&" + goTypeExpr(sp.t, pkg) + "{" + strings.Join(inits, ", ") + "}"
	}
	for _, p := range fn.Params {
		n := pname(p)
		t := p.Type()
		if b, ok := under(t).(*types.Basic); ok {
			switch {
			case b.Info()&types.IsInteger != 0:
				v, ok := smtInt(vals[n])
				if !ok {
					return nil, false, "cannot read value of " + p.Name()
				}
				if lo, _, _ := intRange(t); lo.Sign() == 0 {
					inputs[p.Name()] = fmt.Sprintf("%s(%d)", goTypeExpr(t, pkg), uint64(v))
				} else {
					inputs[p.Name()] = fmt.Sprintf("%s(%d)", goTypeExpr(t, pkg), v)
				}
			case b.Info()&types.IsBoolean != 0:
				inputs[p.Name()] = vals[n]
			case b.Info()&types.IsString != 0:
				ln, _ := smtInt(vals["(strlen "+n+")"])
				if ln < 0 || ln > 1<<20 {
					return nil, false, "string too long to replay"
				}
				var ts []string
				for k := int64(0); k < ln; k++ {
					ts = append(ts, fmt.Sprintf("(strat %s %d)", n, k))
				}
				bv, err := getValues(r.File, ts)
				if err != nil {
					return nil, false, err.Error()
				}
				bs := make([]byte, ln)
				for k := range bs {
					x, _ := smtInt(bv[ts[k]])
					bs[k] = byte(x)
				}
				inputs[p.Name()] = fmt.Sprintf("%s(%q)", goTypeExpr(t, pkg), string(bs))
			}
		}
	}
	for _, pd := range pend {
		if pd.ptr && vals["(= "+pd.pn+" nil)"] == "true" {
			inputs[pd.name] = "nil"
			continue
		}
		ln, ok := smtInt(vals["(slen "+pd.sl+")"])
		if !ok || ln < 0 || ln > 1<<22 {
			return nil, false, "slice too long to replay"
		}
		isNil := vals["(= (sarr "+pd.sl+") nil)"] == "true"
		var ts []string
		for k := int64(0); k < ln; k++ {
			ts = append(ts, fmt.Sprintf("(select H0_T_uint8 (elem (sarr %s) (+ (soff %s) %d)))", pd.sl, pd.sl, k))
		}
		bs := make([]byte, ln)
		if ln > 0 {
			src, _ := os.ReadFile(r.File)
			if strings.Contains(string(src), "H0_T_uint8") {
				bv, err := getValues(r.File, ts)
				if err != nil {
					return nil, false, err.Error()
				}
				for k := range bs {
					x, _ := smtInt(bv[ts[k]])
					bs[k] = byte(x)
				}
			}
		}
		var lit string
		if isNil && ln == 0 {
			lit = goTypeExpr(pd.t, pkg) + "(nil)"
		} else {
			var hx []string
			for _, b := range bs {
				hx = append(hx, fmt.Sprintf("0x%02x", b))
			}
			lit = goTypeExpr(pd.t, pkg) + "([]byte{" + strings.Join(hx, ", ") + "})"
		}
		if pd.ptr {
			inputs[pd.name] = "func() *" + goTypeExpr(pd.t, pkg) + " { v := " + lit + "; return &v }()"
		} else {
			inputs[pd.name] = lit
		}
	}
	return inputs, true, ""
}

// ---------------------------------------------------------------------------------------------
// running the real code

var testFuncRe = regexp.MustCompile(`[^A-Za-z0-9]`)

func callExpr(fn *ssa.Function, inputs map[string]string) string {
	var args []string
	ps := fn.Params
	recv := ""
	if fn.Signature.Recv() != nil && len(ps) > 0 {
		recv = "(" + inputs[ps[0].Name()] + ")."
		ps = ps[1:]
	}
	for i, p := range ps {
		a := inputs[p.Name()]
		if fn.Signature.Variadic() && i == len(ps)-1 {
			a += "..."
		}
		args = append(args, a)
	}
	return recv + fn.Name() + "(" + strings.Join(args, ", ") + ")"
}

func runReplay(w *World, fn *ssa.Function, o *Obligation, inputs map[string]string, repo, outDir string) (confirmed, ran bool, test, out string) {
	pkgPath := fn.Pkg.Pkg.Path()
	rel := strings.TrimPrefix(strings.TrimPrefix(pkgPath, modPath), "/")
	pkgDir := filepath.Join(repo, rel)
	needsImports := ""
	call := callExpr(fn, inputs)
	for _, imp := range fn.Pkg.Pkg.Imports() {
		if regexp.MustCompile(`(^|[^A-Za-z0-9_])` + regexp.QuoteMeta(imp.Name()) + `\.`).MatchString(call) {
			needsImports += fmt.Sprintf("\t%q\n", imp.Path())
		}
	}
	safety := o.Class != "post" && o.Class != "inv-entry" && o.Class != "inv-step" && o.Class != "dec" && o.Class != "fresh" && o.Class != "lock" && o.Class != "bytewrite" && o.Class != "pre"
	test = fmt.Sprintf(`package %s

import (
	"fmt"
	"testing"
%s)

func TestGobtvcReplay(t *testing.T) {
	defer func() {
		if r := recover(); r != nil {
			fmt.Printf("GOBTVC-REPLAY panic: %%v\n", r)
		}
	}()
	%s
	fmt.Println("GOBTVC-REPLAY returned")
}
`, fn.Pkg.Pkg.Name(), needsImports, assignCall(fn, call))
	scratch := filepath.Join(outDir, "replay", "overlay")
	os.MkdirAll(scratch, 0o755)
	tf := filepath.Join(scratch, "gobtvc_replay_test.go")
	os.WriteFile(tf, []byte(test), 0o644)
	ov := map[string]map[string]string{"Replace": {filepath.Join(pkgDir, "gobtvc_replay_test.go"): tf}}
	ob, _ := json.Marshal(ov)
	ovf := filepath.Join(scratch, "overlay.json")
	os.WriteFile(ovf, ob, 0o644)
	ctx, cancel := context.WithTimeout(context.Background(), 120*time.Second)
	defer cancel()
	cmd := exec.CommandContext(ctx, "bash", "-c", fmt.Sprintf("ulimit -v 4000000; cd %s && go test -mod=mod -overlay %s -vet=off -count=1 -v -timeout 60s -run '^TestGobtvcReplay$' .", pkgDir, ovf))
	cmd.Env = append(os.Environ(), "GOFLAGS=-mod=mod", "GOPROXY=off", "GOSUMDB=off", "GOTOOLCHAIN=local")
	var buf bytes.Buffer
	cmd.Stdout, cmd.Stderr = &buf, &buf
	err := cmd.Run()
	out = buf.String()
	ran = strings.Contains(out, "GOBTVC-REPLAY") || err != nil
	if !safety {
		return false, ran, test, out
	}
	if strings.Contains(out, "GOBTVC-REPLAY panic") || strings.Contains(out, "fatal error") || strings.Contains(out, "panic:") || (err != nil && !strings.Contains(out, "GOBTVC-REPLAY returned") && !strings.Contains(out, "build failed") && !strings.Contains(out, "[setup failed]")) {
		return true, true, test, out
	}
	return false, ran, test, out
}

func assignCall(fn *ssa.Function, call string) string {
	n := fn.Signature.Results().Len()
	if n == 0 {
		return call
	}
	var us, pr []string
	for i := 0; i < n; i++ {
		u := fmt.Sprintf("gobtvcR%d", i)
		if fn.Signature.Results().At(i).Type().String() == "error" {
			// errors are compared by nil-ness only
			us = append(us, u)
			pr = append(pr, "%v")
			continue
		}
		us = append(us, u)
		pr = append(pr, "%v")
	}
	args := make([]string, len(us))
	for i, u := range us {
		if fn.Signature.Results().At(i).Type().String() == "error" {
			args[i] = "map[bool]string{true: \"NILERR\", false: \"ERR\"}[" + u + " == nil]"
		} else {
			args[i] = u
		}
	}
	return strings.Join(us, ", ") + " := " + call + "\n\tfmt.Printf(\"GOBTVC-RESULT " + strings.Join(pr, " ") + "\\n\", " + strings.Join(args, ", ") + ")"
}

func assignCallOld(fn *ssa.Function, call string) string {
	n := fn.Signature.Results().Len()
	var us, pr []string
	for i := 0; i < n; i++ {
		us = append(us, fmt.Sprintf("gobtvcR%d", i))
		pr = append(pr, "%v")
	}
	return strings.Join(us, ", ") + " := " + call + "\n\tfmt.Printf(\"GOBTVC-RESULT " + strings.Join(pr, " ") + "\\n\", " + strings.Join(us, ", ") + ")"
}

func cmdReplay(args []string) {
	fs := flag.NewFlagSet("replay", flag.ExitOnError)
	repo := fs.String("repo", "/repo", "repository")
	fs.Parse(args)
	if fs.NArg() < 1 {
		fmt.Fprintln(os.Stderr, "usage: gobtvc replay <replay.json>")
		os.Exit(2)
	}
	b, err := os.ReadFile(fs.Arg(0))
	if err != nil {
		fmt.Fprintln(os.Stderr, err)
		os.Exit(2)
	}
	if strings.HasSuffix(fs.Arg(0), ".txt") {
		fmt.Println(string(b))
		os.Exit(1)
	}
	var rf ReplayFile
	if err := json.Unmarshal(b, &rf); err != nil {
		fmt.Fprintln(os.Stderr, err)
		os.Exit(2)
	}
	fmt.Printf("obligation %s (%s) at %s\nsolver: %s %s\n%s\n", rf.Obligation, rf.Class, rf.At, rf.Solver, rf.Status, rf.Note)
	if rf.GoTest == "" {
		fmt.Println("no concrete input recorded; solver output:\n" + rf.Output)
		os.Exit(1)
	}
	w, _ := loadAll(*repo)
	fn := w.Funcs[rf.Function]
	if fn == nil {
		fmt.Println("function no longer exists:", rf.Function)
		os.Exit(2)
	}
	outDir := filepath.Join(verifDir, "out", "replay-run")
	os.MkdirAll(outDir, 0o755)
	confirmed, _, _, out := runReplay(w, fn, &Obligation{Class: rf.Class}, rf.Inputs, *repo, outDir)
	fmt.Println(out)
	if confirmed {
		fmt.Println("REPLAY: the real code fails on the recorded input")
		os.Exit(1)
	}
	fmt.Println("REPLAY: the real code does not fail on the recorded input")
}

func runBounded(b BoundedCheck, tier string, seed int) (bool, string, float64) {
	t0 := time.Now()
	ctx, cancel := context.WithTimeout(context.Background(), 20*time.Minute)
	defer cancel()
	cmd := exec.CommandContext(ctx, "bash", "-c", b.Cmd)
	cmd.Dir = verifDir
	cmd.Env = append(os.Environ(), "GOFLAGS=-mod=mod", "GOPROXY=off", "GOSUMDB=off", "GOTOOLCHAIN=local", "VERIF_TIER="+tier, fmt.Sprintf("VERIF_SEED=%d", seed))
	out, err := cmd.CombinedOutput()
	return err == nil, truncate(string(out), 2000), time.Since(t0).Seconds()
}
