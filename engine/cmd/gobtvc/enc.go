package main

import (
	"strconv"
	"os"
	"runtime/debug"
	"fmt"
	"go/constant"
	"go/token"
	"go/types"
	"math/big"
	"sort"
	"strings"

	"golang.org/x/tools/go/ssa"
)

// Obligation is one proof goal: background ∧ ¬Goal must be unsat.
type Obligation struct {
	Blk *ssa.BasicBlock `json:"-"` // block whose encoding produced the obligation
	Name  string // <func>#<class>:<desc>[#n]
	Func  string
	Class string
	Tag   string
	Desc  string
	Pos   string
	Goal  string
	Guard string // reachability condition of the program point (for the vacuity re-check)
	N     int    // number of background assertions that precede this obligation's program point
	RetTerms   []string // replay (class post): SMT terms of the returned values at this return
	ParamSubst map[string]string // replay: parameter name -> SMT constant holding its value at the enclosing loop head
	Props []string // properties this obligation is attributed to by its tag (Cxx.*), else empty
}

// Heap is a symbolic heap: explicit terms for the keys touched since the last epoch change, and an epoch
// that lazily supplies a term for every other key (initial heap, havoc-all, or a join of two heaps).
type Heap struct {
	m  map[string]string
	ep *epoch
}

type epParent struct {
	cond string
	h    *Heap
}

type epoch struct {
	id      int
	parents []epParent // join epoch: value = ite over parents
	prev    *Heap      // havoc-all epoch: heap before the havoc (for non-escaping local cells)
	frame    *frameInfo      // havoc-all epoch whose fresh heaps keep cells outside the frame's exceptions (prev used)
	delegate *Heap           // filtered epoch: every key not in forgot reads through to delegate
	forgot   map[string]bool
	memo    map[string]string
}

func (h *Heap) clone() *Heap {
	n := &Heap{m: map[string]string{}, ep: h.ep}
	for k, v := range h.m {
		n.m[k] = v
	}
	return n
}

type loopInfo struct {
	head    *ssa.BasicBlock
	ordinal int
	blocks  map[*ssa.BasicBlock]bool
	backs   []*ssa.BasicBlock // back-edge sources
	mod     map[string]bool
	spec    *LoopSpec
	headHeap *Heap
	decAtHead string
}

type deferred struct {
	ins   *ssa.Defer
	block *ssa.BasicBlock
}

// Enc encodes one function.
type Enc struct {
	gidNoted  map[string]bool // package-level error objects whose root identity has been asserted
	hashArr   map[ssa.Value]string // array-valued results of sha256.Sum256 / sha1.Sum: their byte-string content (token mode)
	allocHash map[ssa.Value]string // local arrays that hold such a result: content of a full slice over them
	asgVals []Val // values stored by `assigns` clauses of the call being encoded (see applyContract)
	w   *World
	cs  *Contracts
	fn  *ssa.Function
	ct  *Contract
	name string

	decls    []string
	declared map[string]bool
	dtypes   []string // struct datatype declarations, in dependency order
	dtDone   map[string]bool
	asserts  []string
	obls     []*Obligation
	oblCount map[string]int

	vals   map[ssa.Value]Val
	tuples map[ssa.Value][]Val
	strs   map[string]string
	heapSort map[string]string
	nfresh int

	reach   map[*ssa.BasicBlock]string
	outHeap map[*ssa.BasicBlock]*Heap
	edge    map[[2]int]string
	loops   map[*ssa.BasicBlock]*loopInfo
	inLoop  map[*ssa.BasicBlock][]*loopInfo
	order   []*ssa.BasicBlock
	defers  []deferred
	localCells map[string][]string // heap key -> addresses of non-escaping local cells

	entryHeap *Heap
	cur       *Heap
	nepoch    int
	curBlock  *ssa.BasicBlock
	names     map[string]ssa.Value // source name -> latest SSA value (from DebugRef), per function
	nameAt    map[*ssa.BasicBlock]map[string]ssa.Value

	unsupported []string
	localAllocs []*ssa.Alloc
	needFP      bool
	needBE      bool
	needB       bool // byte-string algebra used
	noCouple    bool // temporarily: forget byte cells without forgetting slice contents
	token       bool // contract says `bytes token`
	defsOn      bool
	axiomsUsed  []string
	specUsed    map[string]bool
	foldDone    map[string]bool
	sliceLit    map[string]int // named slices defined as (mkslice a off N cap) with a literal length N
	lemmaDone   map[string]bool
	lemmaSkipped map[string]string
	defined     map[string]bool // constants that have a defining equation
	globalFacts int             // >0: assertions made now hold in every block (facts about shared constants)
	opaqueUsed  map[string]bool
	noFacts     bool // proving the facts themselves
	liteB       bool // background without the byte-string theory (model search for replay only)
	inFieldAssume bool
	inFact      bool // evaluating the statement of a fact: opaque functions stay opaque
	factCache   map[string]string
	defineOpaque bool // evaluating the definitions themselves (fact proofs): opaque functions are expanded
	scratch     []scratchObj
	assertBlk   []*ssa.BasicBlock // block whose encoding produced the assertion (nil: function entry / global)
	assertDef   []string          // non-empty: the assertion defines this name
	foldInsts   map[string][]*foldInst
	named       map[string]string
	readTrace   map[string]bool
	specDecls   []string
	usedLock    bool
	pendingGuard string
	wm           map[string]string     // heap constant -> allocation counter bounding every reference stored in it
	frameOf      map[string]*frameInfo // framed heap constant -> what it preserves
	baseOf       map[string]string     // named heap constant defined as a store chain -> its base term
	rootMemo    map[string]string
	sliceRoot   map[string]string
	trustedUsed map[string]bool
	lockState   string // heap key for ghost lock state
	precise     bool
	checkOvf    bool
}

func newEnc(w *World, cs *Contracts, fn *ssa.Function) *Enc {
	e := &Enc{w: w, cs: cs, fn: fn, name: w.Names[fn], declared: map[string]bool{}, defined: map[string]bool{}, dtDone: map[string]bool{},
		oblCount: map[string]int{}, vals: map[ssa.Value]Val{}, tuples: map[ssa.Value][]Val{}, strs: map[string]string{},
		heapSort: map[string]string{}, reach: map[*ssa.BasicBlock]string{}, outHeap: map[*ssa.BasicBlock]*Heap{},
		edge: map[[2]int]string{}, loops: map[*ssa.BasicBlock]*loopInfo{}, inLoop: map[*ssa.BasicBlock][]*loopInfo{},
		localCells: map[string][]string{}, names: map[string]ssa.Value{}, nameAt: map[*ssa.BasicBlock]map[string]ssa.Value{},
		trustedUsed: map[string]bool{}, rootMemo: map[string]string{}, sliceRoot: map[string]string{},
		frameOf: map[string]*frameInfo{}, baseOf: map[string]string{}, wm: map[string]string{}}
	e.defsOn = true
	if e.name == "" {
		e.name = funcName(fn)
	}
	e.ct = cs.For(e.name)
	if e.ct != nil {
		e.precise = e.ct.Bytes == "array"
		e.token = e.ct.Bytes == "token"
		e.checkOvf = e.ct.Overflow == "check"
	}
	return e
}

func (e *Enc) fresh(prefix, sort string) string {
	e.nfresh++
	n := fmt.Sprintf("%s_%d", prefix, e.nfresh)
	e.declare(n, sort)
	return n
}

func (e *Enc) declare(name, sort string) {
	if e.declared[name] {
		return
	}
	e.declared[name] = true
	e.decls = append(e.decls, fmt.Sprintf("(declare-const %s %s)", name, sort))
}

func (e *Enc) assert(t string) {
	if t == "true" {
		return
	}
	// `(= name term)` for a declared constant that has no definition yet is its definition: obligations carry it exactly
	// when they mention the name (whatever block first needed it: constants and cached values are shared between blocks)
	def := ""
	if strings.HasPrefix(t, "(= ") {
		if k := strings.IndexByte(t[3:], ' '); k > 0 {
			nm := t[3 : 3+k]
			if e.declared[nm] && !e.defined[nm] && !strings.Contains(t[3+k:], " "+nm+")") && !strings.Contains(t[3+k:], " "+nm+" ") {
				def = nm
				e.defined[nm] = true
			}
		}
	}
	blk := e.curBlock
	if e.globalFacts > 0 {
		blk = nil
	}
	e.asserts = append(e.asserts, t)
	e.assertBlk = append(e.assertBlk, blk)
	e.assertDef = append(e.assertDef, def)
}

// scratchObj: allocation root of a local buffer that never escapes (see scratchBuffer), valid where `reach` holds.
type scratchObj struct {
	root, reach string
	blk         *ssa.BasicBlock
}

// rollback drops the assertions made since there were na of them (a lenient clause that did not resolve).
func (e *Enc) rollback(na int) {
	if na >= len(e.asserts) {
		return
	}
	for i := na; i < len(e.asserts); i++ {
		if d := e.assertDef[i]; d != "" {
			for t, c := range e.named {
				if c == d {
					delete(e.named, t)
				}
			}
		}
	}
	e.asserts = e.asserts[:na]
	e.assertBlk = e.assertBlk[:na]
	e.assertDef = e.assertDef[:na]
}

// assertDefnFact: an unconditional fact that is true by definition (block-independent).
func (e *Enc) assertDefnFact(t string) {
	e.asserts = append(e.asserts, t)
	e.assertBlk = append(e.assertBlk, nil)
	e.assertDef = append(e.assertDef, "")
}

// assertDefn: the definition of a fresh name (a constant standing for a long term). Obligations only carry the
// definitions of the names they mention.
func (e *Enc) assertDefn(name, t string) {
	e.asserts = append(e.asserts, app("=", name, t))
	e.assertBlk = append(e.assertBlk, nil)
	e.assertDef = append(e.assertDef, name)
}

func (e *Enc) unsupp(format string, a ...interface{}) {
	e.unsupported = append(e.unsupported, fmt.Sprintf(format, a...))
}

// ---------------------------------------------------------------------------------------------
// sorts

func isBigInt(t types.Type) bool {
	n, ok := t.(*types.Named)
	return ok && n.Obj().Pkg() != nil && n.Obj().Pkg().Path() == "math/big" && n.Obj().Name() == "Int"
}

func (e *Enc) sortOf(t types.Type) string {
	if isBigInt(t) {
		return "Int" // a big.Int value is its mathematical value (ghost heap $big holds the value of each *big.Int)
	}
	switch u := under(t).(type) {
	case *types.Basic:
		switch {
		case u.Info()&types.IsInteger != 0:
			return "Int"
		case u.Info()&types.IsBoolean != 0:
			return "Bool"
		case u.Info()&types.IsString != 0:
			return "Str"
		case u.Info()&types.IsFloat != 0:
			return "Real"
		case u.Kind() == types.UnsafePointer, u.Kind() == types.UntypedNil:
			return "Ref"
		}
		return "Int"
	case *types.Pointer, *types.Map, *types.Chan, *types.Signature, *types.Interface:
		return "Ref"
	case *types.Slice:
		return "Slice"
	case *types.Struct:
		return e.structSort(t, u)
	case *types.Array:
		return "(Array Int " + e.sortOf(u.Elem()) + ")"
	case *types.Tuple:
		return "Tuple"
	}
	return "Ref"
}

func (e *Enc) structSort(t types.Type, st *types.Struct) string {
	name := "S_" + sanitize(qualName(t))
	if _, ok := t.(*types.Named); !ok {
		name = "S_anon_" + sanitize(st.String())
		if len(name) > 60 {
			name = fmt.Sprintf("S_anon_%d_%d", st.NumFields(), len(st.String()))
		}
	}
	if e.dtDone[name] {
		return name
	}
	e.dtDone[name] = true
	var fs []string
	for i := 0; i < st.NumFields(); i++ {
		fs = append(fs, fmt.Sprintf("(%s_f%d %s)", name, i, e.sortOf(st.Field(i).Type())))
	}
	if len(fs) == 0 {
		fs = append(fs, fmt.Sprintf("(%s_unit Int)", name))
	}
	e.dtypes = append(e.dtypes, fmt.Sprintf("(declare-datatypes ((%s 0)) (((mk_%s %s))))", name, name, strings.Join(fs, " ")))
	return name
}

func (e *Enc) zero(t types.Type) string {
	if isBigInt(t) {
		return "0"
	}
	switch u := under(t).(type) {
	case *types.Basic:
		switch {
		case u.Info()&types.IsInteger != 0:
			return "0"
		case u.Info()&types.IsBoolean != 0:
			return "false"
		case u.Info()&types.IsString != 0:
			return "emptystr"
		case u.Info()&types.IsFloat != 0:
			return "0.0"
		}
		return "nil"
	case *types.Slice:
		return "nilslice"
	case *types.Struct:
		s := e.structSort(t, u)
		if u.NumFields() == 0 {
			return "(mk_" + s + " 0)"
		}
		var fs []string
		for i := 0; i < u.NumFields(); i++ {
			fs = append(fs, e.zero(u.Field(i).Type()))
		}
		return "(mk_" + s + " " + strings.Join(fs, " ") + ")"
	case *types.Array:
		return fmt.Sprintf("((as const %s) %s)", e.sortOf(t), e.zero(u.Elem()))
	}
	return "nil"
}

// typeFacts: well-typedness facts for a value of Go type t held in SMT term x.
func (e *Enc) typeFacts(x string, t types.Type) string {
	if isBigInt(t) {
		return "true"
	}
	switch u := under(t).(type) {
	case *types.Basic:
		if u.Info()&types.IsInteger != 0 {
			return inRange(x, t)
		}
		if u.Info()&types.IsString != 0 {
			return app(">=", app("strlen", x), "0")
		}
	case *types.Pointer:
		if _, isStruct := under(u.Elem()).(*types.Struct); isStruct {
			// a non-nil *T refers to a T object: references of different struct types are different
			return or(app("=", x, "nil"), app("=", app("ptag", x), ilit(e.typeID(u.Elem()))))
		}
	case *types.Slice:
		return app("wfslice", x)
	case *types.Struct:
		s := e.structSort(t, u)
		var fs []string
		for i := 0; i < u.NumFields(); i++ {
			fs = append(fs, e.typeFacts(fmt.Sprintf("(%s_f%d %s)", s, i, x), u.Field(i).Type()))
		}
		return and(fs...)
	}
	return "true"
}

// ---------------------------------------------------------------------------------------------
// heap access

func (e *Enc) heapGet(h *Heap, key, sort string) string {
	if e.readTrace != nil {
		e.readTrace[key] = true
	}
	if t, ok := h.m[key]; ok {
		return t
	}
	if key != "$A" {
		if prev, ok := e.heapSort[key]; ok && prev != sort {
			e.unsupp("heap key %s used at sorts %s and %s", key, prev, sort)
		}
		e.heapSort[key] = sort
	}
	return e.epochGet(h.ep, key, sort)
}

func (e *Enc) newEpoch() *epoch {
	e.nepoch++
	return &epoch{id: e.nepoch, memo: map[string]string{}}
}

func (e *Enc) epochGet(ep *epoch, key, sort string) string {
	if t, ok := ep.memo[key]; ok {
		return t
	}
	if ep.delegate != nil && !ep.forgot[key] {
		t := e.heapGet(ep.delegate, key, sort)
		ep.memo[key] = t
		return t
	}
	n := fmt.Sprintf("H%d_%s", ep.id, sanitize(key))
	full := arrSort(key, sort)
	if key == "$A" {
		full = "Int"
	}
	if strings.HasPrefix(key, "$s:") {
		full = sort
	}
	if len(ep.parents) > 0 {
		// join: if all parents agree, reuse their term
		var ts []string
		same := true
		for _, p := range ep.parents {
			t := e.heapGet(p.h, key, sort)
			if len(ts) > 0 && t != ts[0] {
				same = false
			}
			ts = append(ts, t)
		}
		if same {
			ep.memo[key] = ts[0]
			return ts[0]
		}
		e.declare(n, full)
		t := ts[len(ts)-1]
		for i := len(ts) - 2; i >= 0; i-- {
			t = app("ite", ep.parents[i].cond, ts[i], t)
		}
		e.assert(app("=", n, t))
		e.baseOf[n] = t
		ep.memo[key] = n
		return n
	}
	e.declare(n, full)
	ep.memo[key] = n
	if key != "$A" && !strings.HasPrefix(key, "$s:") {
		e.wm[n] = e.epochGet(ep, "$A", "Int")
		e.closedness(n, key, sort)
	}
	prev := ep.prev
	if prev == nil && ep.delegate != nil {
		prev = ep.delegate
	}
	if prev != nil {
		old := e.heapGet(prev, key, sort)
		if key == "$A" {
			e.assert(app(">=", n, old))
		} else if key == "$lock" {
			// the set of locks the current thread holds is not changed by a callee: library functions are proved to
			// release what they acquire (`released-at-exit`), externals do not touch the library's mutexes
			e.assert(app("=", n, old))
		} else if strings.HasPrefix(key, "$s:defer") {
			e.assert(app("=", n, old)) // which defers this activation has registered is its own business
		} else if strings.HasPrefix(key, "$s:") {
		} else if ep.frame != nil && !strings.HasPrefix(key, "$") {
			e.frameOf[n] = &frameInfo{key: key, prev: old, apre: ep.frame.apre, except: ep.frame.except}
		} else {
			for _, c := range e.localCells[key] {
				e.assert(app("=", app("select", n, c), app("select", old, c)))
			}
		}
	}
	return n
}

func (e *Enc) allocCounter(h *Heap) string { return e.heapGet(h, "$A", "Int") }

// newObj allocates a fresh object id in heap h and returns its Ref term.
func (e *Enc) newObj(h *Heap) string {
	a := e.allocCounter(h)
	n := e.fresh("A", "Int")
	e.assert(app("=", n, app("+", a, "1")))
	h.m["$A"] = n
	e.assert(app("=", app("rootid", app("obj", n)), n))
	return app("obj", n)
}

// keyFor returns the heap key of the scalar cell of type t at address produced by addrV (may be nil for synthetic).
func (e *Enc) keyForAddr(addrV ssa.Value, t types.Type) string {
	if fa, ok := addrV.(*ssa.FieldAddr); ok {
		st, name := structOf(fa.X.Type())
		if st != nil {
			return e.w.fieldKey(name, st, fa.Field)
		}
	}
	return cellKey(t)
}

// load reads a value of Go type t stored at address term addr (whose producing SSA value is addrV, possibly nil).
func (e *Enc) load(h *Heap, addr string, addrV ssa.Value, t types.Type) string {
	if isBigInt(t) {
		return e.sel(e.heapGet(h, "$big", "Int"), addr)
	}
	switch u := under(t).(type) {
	case *types.Struct:
		_, name := structOf(t)
		s := e.structSort(t, u)
		if u.NumFields() == 0 {
			return "(mk_" + s + " 0)"
		}
		var fs []string
		for i := 0; i < u.NumFields(); i++ {
			fs = append(fs, e.loadField(h, addr, name, u, i))
		}
		return "(mk_" + s + " " + strings.Join(fs, " ") + ")"
	case *types.Array:
		// array value from memory: uninterpreted array whose elements equal the cells (small arrays enumerated)
		srt := e.sortOf(t)
		n := e.fresh("arrv", srt)
		if u.Len() <= 32 {
			for i := int64(0); i < u.Len(); i++ {
				e.assert(app("=", app("select", n, ilit(i)), e.load(h, app("elem", addr, ilit(i)), nil, u.Elem())))
			}
		}
		return n
	}
	key := e.keyForAddr(addrV, t)
	return e.sel(e.heapGet(h, key, e.sortOf(t)), addr)
}

func (e *Enc) loadField(h *Heap, base, structName string, st *types.Struct, i int) string {
	ft := st.Field(i).Type()
	addr := app("emb", base, ilit(int64(i)))
	switch u := under(ft).(type) {
	case *types.Struct:
		_, n2 := structOf(ft)
		s := e.structSort(ft, u)
		if u.NumFields() == 0 {
			return "(mk_" + s + " 0)"
		}
		var fs []string
		for j := 0; j < u.NumFields(); j++ {
			fs = append(fs, e.loadField(h, addr, n2, u, j))
		}
		return "(mk_" + s + " " + strings.Join(fs, " ") + ")"
	case *types.Array:
		return e.load(h, addr, nil, ft)
	}
	key := e.w.fieldKey(structName, st, i)
	return e.sel(e.heapGet(h, key, e.sortOf(ft)), addr)
}

// store writes value v of Go type t at addr.
func (e *Enc) store(h *Heap, addr string, addrV ssa.Value, t types.Type, v string) {
	if isBigInt(t) {
		h.m["$big"] = app("store", e.heapGet(h, "$big", "Int"), addr, v)
		return
	}
	switch u := under(t).(type) {
	case *types.Struct:
		_, name := structOf(t)
		s := e.structSort(t, u)
		for i := 0; i < u.NumFields(); i++ {
			e.storeField(h, addr, name, u, i, fmt.Sprintf("(%s_f%d %s)", s, i, v))
		}
		return
	case *types.Array:
		if u.Len() <= 32 {
			for i := int64(0); i < u.Len(); i++ {
				e.store(h, app("elem", addr, ilit(i)), nil, u.Elem(), app("select", v, ilit(i)))
			}
		} else {
			for _, k := range e.w.keysOfType(u.Elem()) {
				e.havocKey(h, k)
			}
		}
		return
	}
	key := e.keyForAddr(addrV, t)
	srt := e.sortOf(t)
	h.m[key] = app("store", e.heapGet(h, key, srt), addr, v)
}

func (e *Enc) storeField(h *Heap, base, structName string, st *types.Struct, i int, v string) {
	ft := st.Field(i).Type()
	addr := app("emb", base, ilit(int64(i)))
	switch u := under(ft).(type) {
	case *types.Struct:
		_, n2 := structOf(ft)
		s := e.structSort(ft, u)
		for j := 0; j < u.NumFields(); j++ {
			e.storeField(h, addr, n2, u, j, fmt.Sprintf("(%s_f%d %s)", s, j, v))
		}
		return
	case *types.Array:
		e.store(h, addr, nil, ft, v)
		return
	}
	key := e.w.fieldKey(structName, st, i)
	srt := e.sortOf(ft)
	h.m[key] = app("store", e.heapGet(h, key, srt), addr, v)
}

// compact names large heap terms so that formulas stay small.
func (e *Enc) compact(h *Heap) {
	for k, t := range h.m {
		if len(t) > 160 {
			var n string
			if k == "$A" {
				n = e.fresh("A", "Int")
			} else if strings.HasPrefix(k, "$s:") {
				n = e.fresh("G", e.heapSort[k])
			} else {
				n = e.fresh("H_"+sanitize(k), arrSort(k, e.heapSort[k]))
			}
			e.assert(app("=", n, t))
			e.baseOf[n] = t
			h.m[k] = n
		}
	}
}

// havocKey replaces key by a fresh heap that agrees with the old one on non-escaping local cells.
func (e *Enc) havocKey(h *Heap, key string) {
	if key == "T:uint8" && e.needB && !e.noCouple {
		e.bytesHeap(h)
		e.havocKey(h, "$bytes") // contents of byte slices are forgotten with the bytes
	}
	if key == "$A" {
		old := e.allocCounter(h)
		n := e.fresh("A", "Int")
		e.assert(app(">=", n, old))
		h.m["$A"] = n
		return
	}
	srt, ok := e.heapSort[key]
	if !ok {
		// sort not known yet: remember through a private epoch so a later read gets a fresh term
		e.pendingHavoc(h, key)
		return
	}
	if strings.HasPrefix(key, "$s:") {
		h.m[key] = e.fresh("G", srt)
		return
	}
	old := e.heapGet(h, key, srt)
	n := e.fresh("H_"+sanitize(key), arrSort(key, srt))
	if os.Getenv("GOBTVC_DEBUG_FRAME") != "" && key == "$bytes" {
		fmt.Fprintf(os.Stderr, "plain havoc of $bytes -> %s\n%s\n", n, debug.Stack())
	}
	e.wm[n] = e.allocCounter(h)
	e.closedness(n, key, srt)
	for _, c := range e.localCells[key] {
		e.assert(app("=", app("select", n, c), app("select", old, c)))
	}
	h.m[key] = n
}

// pendingHavoc: the key has not been given a sort yet (never read so far). Move the heap to a new epoch that
// keeps every explicit key and every known key but forgets this one.
func (e *Enc) pendingHavoc(h *Heap, key string) {
	prev := h.clone()
	ep := e.newEpoch()
	ep.delegate = prev
	ep.forgot = map[string]bool{key: true}
	h.ep = ep
	h.m = map[string]string{}
}

// havocAll forgets everything (unknown callee effects) except the allocation counter's monotonicity and
// non-escaping local cells.
func (e *Enc) havocAll(h *Heap) {
	prev := h.clone()
	ep := e.newEpoch()
	ep.prev = prev
	h.m = map[string]string{}
	h.ep = ep
}

// havocAllFramed: everything may change except cells that existed before (root <= apre) and are not rooted at one of
// the listed allocations.
func (e *Enc) havocAllFramed(h *Heap, apre string, except []string) {
	prev := h.clone()
	ep := e.newEpoch()
	ep.prev = prev
	ep.frame = &frameInfo{apre: apre, except: except}
	h.m = map[string]string{}
	h.ep = ep
}

// havocSet forgets every heap key in ks ("*" = everything).
func (e *Enc) havocSet(h *Heap, ks map[string]bool) {
	if ks["*"] {
		e.havocAll(h)
		return
	}
	var keys []string
	for k := range ks {
		keys = append(keys, k)
	}
	sort.Strings(keys)
	for _, k := range keys {
		e.havocKey(h, k)
	}
}

// joinHeaps builds the heap at a control-flow join.
func (e *Enc) joinHeaps(ps []epParent) *Heap {
	if len(ps) == 1 {
		return ps[0].h.clone()
	}
	sameEp := true
	for _, p := range ps {
		if p.h.ep != ps[0].h.ep {
			sameEp = false
		}
	}
	keys := map[string]bool{}
	for _, p := range ps {
		for k := range p.h.m {
			keys[k] = true
		}
	}
	var out *Heap
	if sameEp {
		out = &Heap{m: map[string]string{}, ep: ps[0].h.ep}
	} else {
		ep := e.newEpoch()
		ep.parents = ps
		out = &Heap{m: map[string]string{}, ep: ep}
	}
	var ks []string
	for k := range keys {
		ks = append(ks, k)
	}
	sort.Strings(ks)
	for _, k := range ks {
		srt := e.heapSort[k]
		if k == "$A" {
			srt = "Int"
		}
		var ts []string
		same := true
		for _, p := range ps {
			t := e.heapGet(p.h, k, srt)
			if len(ts) > 0 && t != ts[0] {
				same = false
			}
			ts = append(ts, t)
		}
		if same {
			out.m[k] = ts[0]
			continue
		}
		t := ts[len(ts)-1]
		for i := len(ts) - 2; i >= 0; i-- {
			t = app("ite", ps[i].cond, ts[i], t)
		}
		var n string
		if k == "$A" {
			n = e.fresh("A", "Int")
		} else if strings.HasPrefix(k, "$s:") {
			n = e.fresh("G", srt)
		} else {
			n = e.fresh("H_"+sanitize(k), arrSort(k, srt))
		}
		e.assert(app("=", n, t))
		e.baseOf[n] = t
		out.m[k] = n
	}
	return out
}

// ---------------------------------------------------------------------------------------------
// values

func (e *Enc) strConst(s string) string {
	if s == "" {
		return "emptystr"
	}
	if n, ok := e.strs[s]; ok {
		return n
	}
	n := fmt.Sprintf("str_%d", len(e.strs))
	e.declare(n, "Str")
	e.globalFacts++
	defer func() { e.globalFacts-- }()
	e.assert(app("=", app("strlen", n), ilit(int64(len(s)))))
	for i := 0; i < len(s) && i < 8; i++ {
		e.assert(app("=", app("strat", n, ilit(int64(i))), ilit(int64(s[i]))))
	}
	for _, o := range e.strs {
		e.assert(app("distinct", n, o))
	}
	e.strs[s] = n
	return n
}

var globalIDs = map[string]int64{}

// globalID: a fixed negative object id per package-level object. It depends only on the name (not on the order in
// which functions are encoded), so the same function always yields the same VC text.
var globalIDUsed = map[int64]string{}

func globalID(name string) int64 {
	if id, ok := globalIDs[name]; ok {
		return id
	}
	id := -(int64(1000) + int64(hashStr(name)%1000000000))
	for {
		if other, taken := globalIDUsed[id]; !taken || other == name {
			break
		}
		id--
	}
	globalIDUsed[id] = name
	globalIDs[name] = id
	return id
}

func (e *Enc) val(v ssa.Value) Val {
	if x, ok := e.vals[v]; ok {
		return x
	}
	var r Val
	switch c := v.(type) {
	case *ssa.Const:
		r = e.constVal(c)
	case *ssa.Parameter:
		r = Val{"p_" + sanitize(c.Name()), e.sortOf(c.Type())}
		e.declare(r.T, r.S)
	case *ssa.FreeVar:
		r = Val{"fv_" + sanitize(c.Name()), e.sortOf(c.Type())}
		e.declare(r.T, r.S)
		e.globalFacts++
		e.assert(e.typeFacts(r.T, c.Type()))
		e.globalFacts--
	case *ssa.Global:
		r = Val{app("obj", ilit(globalID(c.String()))), "Ref"}
	case *ssa.Function:
		r = Val{app("obj", ilit(globalID("func:"+c.String()))), "Ref"}
	case *ssa.Builtin:
		r = Val{"nil", "Ref"}
	default:
		// instruction result not yet defined (should not happen in topological order except through back edges)
		n := "v_" + sanitize(v.Name())
		s := e.sortOf(v.Type())
		if s == "Tuple" {
			e.unsupp("tuple value used before definition: %s", v.Name())
			s = "Int"
		}
		e.declare(n, s)
		r = Val{n, s}
	}
	e.vals[v] = r
	return r
}

func (e *Enc) constVal(c *ssa.Const) Val {
	t := c.Type()
	s := e.sortOf(t)
	if c.Value == nil {
		return Val{e.zero(t), s}
	}
	switch c.Value.Kind() {
	case constant.Bool:
		if constant.BoolVal(c.Value) {
			return Val{"true", "Bool"}
		}
		return Val{"false", "Bool"}
	case constant.Int:
		if s == "Real" {
			return Val{c.Value.ExactString() + ".0", "Real"}
		}
		n, _ := new(big.Int).SetString(c.Value.ExactString(), 10)
		return Val{intLit(n), "Int"}
	case constant.String:
		return Val{e.strConst(constant.StringVal(c.Value)), "Str"}
	case constant.Float:
		f, _ := constant.Float64Val(c.Value)
		r := new(big.Rat).SetFloat64(f)
		if r == nil {
			return Val{"0.0", "Real"}
		}
		if s == "Int" {
			return Val{intLit(new(big.Int).Quo(r.Num(), r.Denom())), "Int"}
		}
		return Val{fmt.Sprintf("(/ %s.0 %s.0)", r.Num().String(), r.Denom().String()), "Real"}
	}
	return Val{e.zero(t), s}
}

// define binds instruction result v to term t (naming it when large).
func (e *Enc) define(v ssa.Value, t string) Val {
	s := e.sortOf(v.Type())
	n := "v_" + sanitize(v.Name())
	if _, pre := e.vals[v]; pre || len(t) > 80 || true {
		e.declare(n, s)
		e.assert(app("=", n, t))
		e.noteRoot(n, s, t)
		if s == "Str" {
			e.assert(app(">=", app("strlen", n), "0"))
		}
		r := Val{n, s}
		e.vals[v] = r
		return r
	}
	r := Val{t, s}
	e.vals[v] = r
	return r
}

func (e *Enc) havocVal(v ssa.Value) Val {
	s := e.sortOf(v.Type())
	n := "v_" + sanitize(v.Name())
	e.declare(n, s)
	e.assert(e.typeFacts(n, v.Type()))
	r := Val{n, s}
	e.vals[v] = r
	return r
}

// ---------------------------------------------------------------------------------------------
// obligations

func (e *Enc) oblige(class, desc, tag string, pos token.Pos, goal string) {
	if goal == "true" {
		goal = "true"
	}
	base := e.name + "#" + class
	if desc != "" {
		base += ":" + desc
	}
	n := e.oblCount[base]
	e.oblCount[base] = n + 1
	name := base
	if n > 0 {
		name = fmt.Sprintf("%s#%d", base, n)
	}
	p := ""
	if pos.IsValid() {
		pp := e.w.Fset.Position(pos)
		p = fmt.Sprintf("%s:%d", strings.TrimPrefix(pp.Filename, e.w.RepoDir+"/"), pp.Line)
	}
	o := &Obligation{Name: name, Func: e.name, Class: class, Tag: tag, Desc: desc, Pos: p, Goal: goal, Guard: e.pendingGuard, N: len(e.asserts), Blk: e.curBlock}
	e.pendingGuard = ""
	// replay heuristic: inside a loop whose head phi starts from a parameter (b = b[k:] style parsers), the state of the
	// arbitrary iteration is itself a legal initial argument: read the parameter from the phi
	for _, li := range e.inLoop[e.curBlock] {
		for _, ins := range li.head.Instrs {
			phi, ok := ins.(*ssa.Phi)
			if !ok {
				break
			}
			for i, p := range li.head.Preds {
				if li.head.Dominates(p) {
					continue
				}
				if par, isP := phi.Edges[i].(*ssa.Parameter); isP {
					if v, known := e.vals[phi]; known {
						if o.ParamSubst == nil {
							o.ParamSubst = map[string]string{}
						}
						o.ParamSubst[par.Name()] = v.T
					}
				}
			}
		}
	}
	if strings.HasPrefix(tag, "C") && len(tag) >= 3 {
		if k := strings.Index(tag, "."); k > 0 {
			o.Props = []string{tag[:k]}
		}
	}
	e.obls = append(e.obls, o)
	// assert-then-assume: execution continues past a run-time check only if the check passed (otherwise it panics),
	// so later program points may rely on it. The obligation itself was recorded with the assertions before this one.
	switch class {
	case "idx", "slice", "nil", "div0", "shift", "make", "assert", "mapnil":
		e.assert(goal)
	}
}

func (e *Enc) guardGoal(goal string) string {
	e.pendingGuard = e.reach[e.curBlock]
	return implies(e.reach[e.curBlock], goal)
}

func (e *Enc) instrDesc(ins ssa.Instruction) string {
	type poser interface{ Pos() token.Pos }
	if v, ok := ins.(ssa.Value); ok {
		// prefer the source expression recorded by a DebugRef
		if refs := v.Referrers(); refs != nil {
			for _, r := range *refs {
				if d, ok := r.(*ssa.DebugRef); ok && d.X == v && d.Expr != nil {
					return e.w.srcText(d.Expr.Pos(), d.Expr.End())
				}
			}
		}
	}
	return ""
}

// script ASCII description safe for an obligation name
func descOf(s string) string {
	s = strings.ReplaceAll(s, " ", "")
	if len(s) > 48 {
		s = s[:48]
	}
	return s
}

// rootOf computes the allocation root of a Ref term syntactically where the term is built from constructors;
// opaque terms fall back to the uninterpreted (rootid t).
func (e *Enc) rootOf(t string) string {
	t = strings.TrimSpace(t)
	if r, ok := e.rootMemo[t]; ok {
		return r
	}
	switch {
	case t == "nil":
		return "0"
	case strings.HasPrefix(t, "(obj "):
		return strings.TrimSuffix(strings.TrimPrefix(t, "(obj "), ")")
	case strings.HasPrefix(t, "(emb "), strings.HasPrefix(t, "(elem "):
		args := splitArgs(t)
		if len(args) == 3 {
			return e.rootOf(args[1])
		}
	case strings.HasPrefix(t, "(sarr (mkslice "):
		inner := splitArgs(t)
		if len(inner) == 2 {
			a := splitArgs(inner[1])
			if len(a) == 5 {
				return e.rootOf(a[1])
			}
		}
	case strings.HasPrefix(t, "(sarr "):
		inner := splitArgs(t)
		if len(inner) == 2 {
			if r, ok := e.sliceRoot[inner[1]]; ok {
				return r
			}
		}
	case strings.HasPrefix(t, "(ite "):
		a := splitArgs(t)
		if len(a) == 4 {
			return app("ite", a[1], e.rootOf(a[2]), e.rootOf(a[3]))
		}
	}
	return app("rootid", t)
}

// splitArgs splits "(f a b c)" into ["f","a","b","c"] at top level.
func splitArgs(t string) []string {
	if !strings.HasPrefix(t, "(") || !strings.HasSuffix(t, ")") {
		return []string{t}
	}
	t = t[1 : len(t)-1]
	var out []string
	depth, start := 0, 0
	for i := 0; i <= len(t); i++ {
		if i == len(t) || (t[i] == ' ' && depth == 0) {
			if i > start {
				out = append(out, t[start:i])
			}
			start = i + 1
			continue
		}
		switch t[i] {
		case '(':
			depth++
		case ')':
			depth--
		}
	}
	return out
}

// noteRoot records the root of a named Ref/Slice constant defined as term t.
func (e *Enc) noteRoot(name, sortS, t string) {
	switch sortS {
	case "Ref":
		r := e.rootOf(t)
		if r != app("rootid", t) {
			e.rootMemo[name] = r
			if strings.HasPrefix(t, "(emb ") || strings.HasPrefix(t, "(elem ") {
				// a field or element lives in the allocation of its object: tell the solver too (it compares such
				// addresses with references it only knows allocation bounds for)
				e.assert(app("=", app("rootid", name), r))
			}
		}
	case "Slice":
		if strings.HasPrefix(t, "(mkslice ") {
			a := splitArgs(t)
			if len(a) == 5 {
				if v, err := strconv.Atoi(a[3]); err == nil {
					if e.sliceLit == nil {
						e.sliceLit = map[string]int{}
					}
					e.sliceLit[name] = v
				} else if strings.HasPrefix(a[3], "(- ") {
					if p := splitArgs(a[3]); len(p) == 3 {
						x, e1 := strconv.Atoi(p[1])
						y, e2 := strconv.Atoi(p[2])
						if e1 == nil && e2 == nil {
							if e.sliceLit == nil {
								e.sliceLit = map[string]int{}
							}
							e.sliceLit[name] = x - y
						}
					}
				}
				r := e.rootOf(a[1])
				if r != app("rootid", a[1]) {
					e.sliceRoot[name] = r
				}
			}
		} else if r, ok := e.sliceRoot[t]; ok {
			e.sliceRoot[name] = r
		}
	}
}

// frameInfo: heap constant n agrees with prev on every cell whose allocation root is <= apre and is not one of except.
type frameInfo struct {
	key    string
	prev   string
	apre   string
	except []string // roots (Int terms) of arrays the callee/loop may write
}

// heapBase strips stores and named store chains down to the underlying heap constant.
func (e *Enc) heapBase(t string) string {
	for i := 0; i < 64; i++ {
		if strings.HasPrefix(t, "(store ") {
			a := splitArgs(t)
			if len(a) == 4 {
				t = a[1]
				continue
			}
		}
		if b, ok := e.baseOf[t]; ok {
			t = b
			continue
		}
		break
	}
	return t
}

// sel reads heap term ht at addr. Reads through a framed constant are expressed so that the frame is part of the term:
// the read itself says "if the cell existed before the havoc (and is not a declared write target) it has its old value".
func (e *Enc) sel(ht, addr string) string {
	return e.selDepth(ht, addr, 0)
}

func (e *Enc) selDepth(ht, addr string, depth int) string {
	if depth > 6 {
		return app("select", ht, addr)
	}
	// only reads whose store chain is trivially transparent are rewritten: the base must be reached without stores
	// that could hit addr; we therefore rewrite only when ht itself is the framed constant or a named alias of it
	b := ht
	if fi, ok := e.frameOf[b]; ok {
		rt := e.addrRoot(fi.key, addr)
		cond := app("<=", rt, fi.apre)
		for _, x := range fi.except {
			if x == rt {
				return app("select", b, addr) // the address is rooted at an excepted allocation: not framed
			}
			cond = and(cond, app("distinct", rt, x))
		}
		return app("ite", cond, e.selDepth(fi.prev, addr, depth+1), app("select", b, addr))
	}
	if strings.HasPrefix(ht, "(store ") && e.mentionsFrame(ht, 0) {
		a := splitArgs(ht)
		if len(a) == 4 {
			return app("ite", app("=", addr, a[2]), a[3], e.selDepth(a[1], addr, depth))
		}
	}
	if strings.HasPrefix(ht, "(ite ") {
		a := splitArgs(ht)
		if len(a) == 4 && e.mentionsFrame(a[2], 0) || len(a) == 4 && e.mentionsFrame(a[3], 0) {
			return app("ite", a[1], e.selDepth(a[2], addr, depth+1), e.selDepth(a[3], addr, depth+1))
		}
	}
	if def, ok := e.baseOf[ht]; ok && e.mentionsFrame(def, 0) {
		return e.selDepth(def, addr, depth)
	}
	return app("select", ht, addr)
}

// mentionsFrame: does reading through heap term t ever reach a framed constant?
func (e *Enc) mentionsFrame(t string, depth int) bool {
	if depth > 8 {
		return false
	}
	if _, ok := e.frameOf[t]; ok {
		return true
	}
	if strings.HasPrefix(t, "(store ") {
		a := splitArgs(t)
		if len(a) == 4 {
			return e.mentionsFrame(a[1], depth)
		}
	}
	if strings.HasPrefix(t, "(ite ") {
		a := splitArgs(t)
		if len(a) == 4 {
			return e.mentionsFrame(a[2], depth+1) || e.mentionsFrame(a[3], depth+1)
		}
	}
	if def, ok := e.baseOf[t]; ok {
		return e.mentionsFrame(def, depth+1)
	}
	return false
}

// havocKeyFramed: like havocKey, but cells allocated no later than apre (and not rooted at one of except) keep their value.
func (e *Enc) havocKeyFramed(h *Heap, key string, apre string, except []string) {
	if key == "T:uint8" && e.needB && !e.noCouple {
		e.bytesHeap(h)
		e.havocKeyFramed(h, "$bytes", apre, except) // same frame: slices over untouched arrays keep their content
	}
	srt, ok := e.heapSort[key]
	if !ok {
		e.pendingHavoc(h, key)
		return
	}
	old := e.heapGet(h, key, srt)
	n := e.fresh("H_"+sanitize(key), arrSort(key, srt))
	e.frameOf[n] = &frameInfo{key: key, prev: old, apre: apre, except: except}
	e.wm[n] = e.allocCounter(h)
	e.closedness(n, key, srt)
	h.m[key] = n
}

// readBases: the heap constants a read of ht at addr may fall through to (through stores, frames, joins).
func (e *Enc) readBases(ht string, depth int, out map[string]bool) {
	if depth > 10 {
		out["?"] = true
		return
	}
	if fi, ok := e.frameOf[ht]; ok {
		out[ht] = true
		e.readBases(fi.prev, depth+1, out)
		return
	}
	if strings.HasPrefix(ht, "(store ") {
		a := splitArgs(ht)
		if len(a) == 4 {
			e.readBases(a[1], depth, out)
			return
		}
	}
	if strings.HasPrefix(ht, "(ite ") {
		a := splitArgs(ht)
		if len(a) == 4 {
			e.readBases(a[2], depth+1, out)
			e.readBases(a[3], depth+1, out)
			return
		}
	}
	if def, ok := e.baseOf[ht]; ok {
		e.readBases(def, depth+1, out)
		return
	}
	out[ht] = true
}

// loadedRefFacts: a reference read from the heap was allocated no later than the heap constant it is read from was
// created (stores in between contribute values the solver already knows exactly).
func (e *Enc) loadedRefFacts(h *Heap, key, srt, addr string) {
	if srt != "Ref" && srt != "Slice" {
		return
	}
	rdv := e.sel(e.heapGet(h, key, srt), addr)
	if srt == "Slice" {
		rdv = app("sarr", rdv)
	}
	for _, sc := range e.scratch {
		if srt != "Slice" {
			break // only slices are compared with scratch buffers (contents of byte slices vs. a buffer being refilled)
		}
		if sc.blk != nil && e.curBlock != nil && !sc.blk.Dominates(e.curBlock) {
			continue // not allocated on every path to this point
		}
		// no reference to a scratch buffer of this function is ever stored
		e.assert(implies(sc.reach, app("distinct", app("rootid", rdv), sc.root)))
	}
	ht := e.heapGet(h, key, srt)
	bases := map[string]bool{}
	e.readBases(ht, 0, bases)
	var bl []string
	for b := range bases {
		bl = append(bl, b)
	}
	sort.Strings(bl)
	for _, b := range bl {
		w, ok := e.wm[b]
		if !ok || b == "?" {
			continue
		}
		rd := app("select", b, addr)
		if srt == "Slice" {
			rd = app("sarr", rd)
		}
		e.assert(app("<=", app("rootid", rd), w))
	}
}

// closedness: in precise (quantified) mode, every reference stored in a freshly introduced heap constant was allocated
// no later than the constant's watermark. Needed under quantifiers, where per-load facts cannot be emitted.
func (e *Enc) closedness(n, key, sort string) {
	if (!e.precise && !e.token) || strings.HasPrefix(key, "$") || e.ct == nil || e.ct.Opts["closed-heaps"] == "" {
		return
	}
	w, ok := e.wm[n]
	if !ok {
		return
	}
	switch sort {
	case "Ref":
		e.assert(fmt.Sprintf("(forall ((r Ref)) (! (<= (rootid (select %s r)) %s) :pattern ((select %s r))))", n, w, n))
	case "Slice":
		e.assert(fmt.Sprintf("(forall ((r Ref)) (! (<= (rootid (sarr (select %s r))) %s) :pattern ((select %s r))))", n, w, n))
	}
}

// arrSort: SMT sort of the heap for a key. Byte-string contents ($bytes) are indexed by slice header, everything else by
// cell address.
func arrSort(key, elemSort string) string {
	if key == "$bytes" {
		return "(Array Slice B)"
	}
	return "(Array Ref " + elemSort + ")"
}

// addrRoot: allocation root of an index into heap `key`.
func (e *Enc) addrRoot(key, addr string) string {
	if key == "$bytes" {
		return e.rootOf(app("sarr", addr))
	}
	return e.rootOf(addr)
}
