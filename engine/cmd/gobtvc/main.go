package main

import (
	"go/types"
	"golang.org/x/tools/go/ssa"
	"flag"
	"fmt"
	"os"
	"path/filepath"
	"regexp"
	"sort"
	"strings"
	"time"
)

var verifDir = "/verif"

func main() {
	if len(os.Args) < 2 {
		fmt.Fprintln(os.Stderr, "usage: gobtvc vc|check|list|replay ...")
		os.Exit(2)
	}
	if d := os.Getenv("GOBTVC_VERIF"); d != "" {
		verifDir = d
	}
	switch os.Args[1] {
	case "vc":
		cmdVC(os.Args[2:])
	case "check":
		cmdCheck(os.Args[2:])
	case "list":
		cmdList(os.Args[2:])
	case "replay":
		cmdReplay(os.Args[2:])
	case "baseline":
		cmdBaseline(os.Args[2:])
	default:
		fmt.Fprintln(os.Stderr, "unknown command", os.Args[1])
		os.Exit(2)
	}
}

func loadAll(repo string) (*World, *Contracts) {
	w, err := loadWorld(repo)
	if err != nil {
		fmt.Fprintln(os.Stderr, "gobtvc: cannot load", repo, ":", err)
		os.Exit(2)
	}
	cs, err := loadContracts(repo, filepath.Join(verifDir, "contracts"))
	if err != nil {
		fmt.Fprintln(os.Stderr, "gobtvc: contracts:", err)
		os.Exit(2)
	}
	// interface methods declared pure by contract: re-run the effect analyses with that knowledge, then check that
	// every library implementation really writes no pre-existing memory
	w.PureIface = func(c *ssa.CallCommon) bool {
		ct := cs.IfaceFor(ifaceKey(c))
		// `pure` (checked of every implementation in the module) or an explicitly empty, trusted frame (an assumption)
		return ct != nil && (ct.Pure || (ct.HasAssigns && len(ct.Assigns) == 0 && ct.Trusted != ""))
	}
	w.PureSig = func(c *ssa.CallCommon) bool {
		if c.IsInvoke() {
			return false
		}
		ct := cs.Sigs[types.TypeString(c.Value.Type().Underlying(), shortQual)]
		return ct != nil && sigWritesNoMemory(ct)
	}
	w.ModSet = map[*ssa.Function]map[string]bool{}
	w.computeModSets()
	w.FrameAll = map[*ssa.Function]bool{}
	w.FrameKeys = map[*ssa.Function]map[string]bool{}
	for n, f := range w.Funcs {
		if ct := cs.For(n); ct != nil && ct.Opts["frame-all"] != "" {
			w.FrameAll[f] = true
		}
		if ct := cs.For(n); ct != nil && ct.Opts["frame-keys"] != "" {
			w.FrameKeys[f] = map[string]bool{}
			for _, k := range strings.Fields(ct.Opts["frame-keys"]) {
				w.FrameKeys[f][k] = true
			}
		}
	}
	w.computeWritesExisting()
	// functions declared `pure` must write no pre-existing memory according to the write analysis
	for n, f := range w.Funcs {
		ct := cs.ByFunc[n]
		if ct == nil || !ct.Pure || ct.Trusted != "" {
			continue
		}
		for k, wc := range w.WE[f] {
			if wc.other || len(wc.params) > 0 {
				fmt.Fprintf(os.Stderr, "gobtvc: contract violated: %s is declared pure but may write existing %s\n", n, k)
				os.Exit(2)
			}
		}
	}
	w.Impls = w.ifaceRefinements(cs)
	for fn, irs := range w.Impls {
		if n := w.Names[fn]; cs.For(n) == nil {
			fmt.Fprintf(os.Stderr, "gobtvc: %s implements %s, which has postconditions, but has no contract of its own (add one, even empty)\n", n, irs[0].Key)
			os.Exit(2)
		}
	}
	if bad := w.checkPureIfaces(cs); len(bad) > 0 {
		for _, b := range bad {
			fmt.Fprintln(os.Stderr, "gobtvc: contract violated:", b)
		}
		os.Exit(2)
	}
	return w, cs
}

// cmdVC: developer command — encode the functions matching a regexp, solve, print a table.
func cmdVC(args []string) {
	fs := flag.NewFlagSet("vc", flag.ExitOnError)
	repo := fs.String("repo", "/repo", "repository")
	pat := fs.String("func", "", "regexp over function names")
	dump := fs.Bool("dump", false, "print SSA and background")
	tier := fs.String("tier", "quick", "quick|thorough")
	class := fs.String("class", "", "only obligations of these classes (comma separated)")
	verbose := fs.Bool("v", false, "print every obligation")
	fs.IntVar(&budgetOverride, "budget", 0, "per-solver seconds")
	quiet := fs.Bool("q", false, "only per-function totals")
	fs.Parse(args)
	w, cs := loadAll(*repo)
	re := regexp.MustCompile(*pat)
	t0 := time.Now()
	tot, ok := 0, 0
	for _, n := range w.sortedFuncNames() {
		if !re.MatchString(n) {
			continue
		}
		e := newEnc(w, cs, w.Funcs[n])
		e.Encode()
		if *dump {
			w.Funcs[n].WriteTo(os.Stdout)
			fmt.Println(e.Background())
		}
		obls := e.obls
		if *class != "" {
			var f []*Obligation
			for _, o := range obls {
				if strings.Contains(","+*class+",", ","+o.Class+",") {
					f = append(f, o)
				}
			}
			obls = f
		}
		res := solveAllEnc(filepath.Join(verifDir, "out", "vc"), e, obls, *tier, 16, 0)
		nok := 0
		for _, r := range res {
			if r.Status == "unsat" {
				nok++
			}
		}
		tot += len(res)
		ok += nok
		fmt.Printf("%-60s %3d/%3d  unsupported=%d\n", n, nok, len(res), len(e.unsupported))
		for _, u := range e.unsupported {
			fmt.Println("    UNSUPPORTED:", u)
		}
		for _, r := range res {
			if *quiet {
				break
			}
			if r.Status != "unsat" || *verbose {
				fmt.Printf("    %-8s %-7s %5.2fs %s  [%s]\n", r.Status, r.Solver, r.Seconds, r.Obl.Name, r.Obl.Pos)
			}
		}
	}
	fmt.Printf("total %d/%d discharged in %.1fs\n", ok, tot, time.Since(t0).Seconds())
}

func cmdList(args []string) {
	fs := flag.NewFlagSet("list", flag.ExitOnError)
	repo := fs.String("repo", "/repo", "repository")
	fs.Parse(args)
	w, _ := loadAll(*repo)
	for _, n := range w.sortedFuncNames() {
		var ks []string
		for k := range w.ModSet[w.Funcs[n]] {
			ks = append(ks, k)
		}
		sort.Strings(ks)
		fmt.Printf("%s  writes{%s}\n", n, strings.Join(ks, " "))
	}
}


// sigWritesNoMemory: the family contract says `pure`, or assigns ghost variables only.
func sigWritesNoMemory(ct *Contract) bool {
	if ct.Pure {
		return true
	}
	if !ct.HasAssigns {
		return false
	}
	for _, a := range ct.Assigns {
		if !a.IsList || len(a.List) != 2 || a.List[0].Atom != "key" || !strings.HasPrefix(strings.Trim(a.List[1].Atom, "\""), "$s:g:") {
			return false
		}
	}
	return true
}
