package main

import (
	"runtime/debug"
	"strconv"
	"os"
	"fmt"
	"path/filepath"
	"go/ast"
	"go/token"
	"go/types"
	"sort"
	"strings"

	"golang.org/x/tools/go/ssa"
)

// ---------------------------------------------------------------------------------------------
// CFG analysis

func (e *Enc) analyseCFG() {
	fn := e.fn
	// back edges: p -> h where h dominates p
	for _, b := range fn.Blocks {
		for _, s := range b.Succs {
			if s.Dominates(b) {
				li := e.loops[s]
				if li == nil {
					li = &loopInfo{head: s, blocks: map[*ssa.BasicBlock]bool{s: true}, mod: map[string]bool{}}
					e.loops[s] = li
				}
				li.backs = append(li.backs, b)
			}
		}
	}
	var heads []*ssa.BasicBlock
	for h := range e.loops {
		heads = append(heads, h)
	}
	sort.Slice(heads, func(i, j int) bool {
		pi, pj := loopPos(heads[i]), loopPos(heads[j])
		if pi != pj {
			return pi < pj
		}
		return heads[i].Index < heads[j].Index
	})
	if os.Getenv("GOBTVC_DEBUG_FRAME") != "" {
		for _, h := range heads {
			fmt.Fprintf(os.Stderr, "loop head b%d pos %d\n", h.Index, loopPos(h))
		}
	}
	for i, h := range heads {
		li := e.loops[h]
		li.ordinal = i
		// natural loop: blocks that reach a back-edge source without passing through h
		var stack []*ssa.BasicBlock
		for _, b := range li.backs {
			if !li.blocks[b] {
				li.blocks[b] = true
				stack = append(stack, b)
			}
		}
		for len(stack) > 0 {
			b := stack[len(stack)-1]
			stack = stack[:len(stack)-1]
			for _, p := range b.Preds {
				if !li.blocks[p] {
					li.blocks[p] = true
					stack = append(stack, p)
				}
			}
		}
		if e.ct != nil {
			li.spec = e.ct.Loops[i]
		}
		for b := range li.blocks {
			e.inLoop[b] = append(e.inLoop[b], li)
		}
	}
	// topological order ignoring back edges
	seen := map[*ssa.BasicBlock]bool{}
	var post []*ssa.BasicBlock
	var dfs func(b *ssa.BasicBlock)
	dfs = func(b *ssa.BasicBlock) {
		seen[b] = true
		for _, s := range b.Succs {
			if s.Dominates(b) { // back edge
				continue
			}
			if !seen[s] {
				dfs(s)
			}
		}
		post = append(post, b)
	}
	dfs(fn.Blocks[0])
	for i := len(post) - 1; i >= 0; i-- {
		e.order = append(e.order, post[i])
	}
}

// loopPos orders loops by the source position of their head (falls back to the block index).
func loopPos(h *ssa.BasicBlock) int {
	best := token.NoPos
	for _, ins := range h.Instrs {
		if p := ins.Pos(); p.IsValid() && (best == token.NoPos || p < best) {
			best = p
		}
	}
	if best == token.NoPos {
		// head without positions (e.g. `for {`): use the earliest position in its successors
		for _, s := range h.Succs {
			for _, ins := range s.Instrs {
				if p := ins.Pos(); p.IsValid() && (best == token.NoPos || p < best) {
					best = p
				}
			}
		}
	}
	if best == token.NoPos {
		return 1<<40 + h.Index
	}
	return int(best)
}

func (e *Enc) loopMod(li *loopInfo) map[string]bool {
	m := map[string]bool{}
	for b := range li.blocks {
		for _, ins := range b.Instrs {
			switch x := ins.(type) {
			case *ssa.Store:
				for _, k := range e.w.storeKey(x.Addr) {
					m[k] = true
				}
			case *ssa.Alloc, *ssa.MakeSlice, *ssa.MakeMap, *ssa.MakeInterface, *ssa.MakeClosure, *ssa.MakeChan:
				m["$A"] = true
				if a, ok := x.(*ssa.Alloc); ok {
					for _, k := range e.w.keysOfType(a.Type().(*types.Pointer).Elem()) {
						m[k] = true
					}
				}
			case *ssa.Slice, *ssa.Convert:
				m["$A"] = true
			case *ssa.MapUpdate:
				m["$s:map"] = true
			case ssa.CallInstruction:
				m["$A"] = true
				for k := range e.callWrites(x.Common()) {
					m[k] = true
				}
			}
		}
	}
	return m
}

// callWrites: heap keys a call may write (contract assigns if given, else the inferred write set).
func (e *Enc) callWrites(c *ssa.CallCommon) map[string]bool {
	if c.IsInvoke() {
		return e.w.invokeWrites(c)
	}
	switch cv := c.Value.(type) {
	case *ssa.Builtin:
		m := map[string]bool{}
		switch cv.Name() {
		case "append", "copy":
			if st, ok := under(c.Args[0].Type()).(*types.Slice); ok {
				for _, k := range e.w.keysOfType(st.Elem()) {
					m[k] = true
				}
			}
		case "delete":
			m["$s:map"] = true
		}
		return m
	case *ssa.Function:
		return e.fnWrites(cv)
	case *ssa.MakeClosure:
		if fn, ok := cv.Fn.(*ssa.Function); ok {
			return e.fnWrites(fn)
		}
	}
	// a call through a function value whose type has a family contract (`sig`): the contract's frame
	if ct := e.cs.Sigs[types.TypeString(c.Value.Type().Underlying(), shortQual)]; ct != nil && sigWritesNoMemory(ct) {
		m := map[string]bool{}
		for _, a := range ct.Assigns {
			m[strings.Trim(a.List[1].Atom, "\"")] = true
		}
		return m
	}
	return e.w.funcValueWrites(c)
}

func (e *Enc) fnWrites(fn *ssa.Function) map[string]bool {
	if ms, ok := e.w.ModSet[fn]; ok {
		if ct := e.cs.For(e.w.Names[fn]); ct != nil && ct.Pure {
			return map[string]bool{}
		}
		return ms
	}
	return e.w.externalWrites(fn)
}

// ---------------------------------------------------------------------------------------------
// main driver

func (e *Enc) Encode() {
	fn := e.fn
	defer func() {
		if r := recover(); r != nil {
			e.unsupp("encoder panic: %v", r)
			if os.Getenv("GOBTVC_PANIC_TRACE") != "" {
				fmt.Fprintf(os.Stderr, "%s\n", debug.Stack())
			}
		}
	}()
	e.analyseCFG()
	e.collectLocalCells()
	ep0 := &epoch{id: 0, memo: map[string]string{}}
	e.entryHeap = &Heap{m: map[string]string{}, ep: ep0}
	a0 := e.allocCounter(e.entryHeap)
	e.assert(app(">=", a0, "0")) // allocation ids are positive (nil is 0, package-level objects are negative)
	nd := 0
	for _, b := range fn.Blocks {
		for _, ins := range b.Instrs {
			if _, ok := ins.(*ssa.Defer); ok {
				e.assert(not(e.heapGet(e.entryHeap, fmt.Sprintf("$s:defer%d", nd), "Bool")))
				nd++
			}
		}
	}
	// parameters
	if e.token {
		e.needB = true
	}
	for _, p := range fn.Params {
		v := e.val(p)
		e.assert(e.typeFacts(v.T, p.Type()))
		e.assert(e.refOld(v, e.entryHeap))
		e.byteSliceEnters(e.entryHeap, v, p.Type(), "true")
	}
	for _, fv := range fn.FreeVars {
		v := e.val(fv)
		e.assert(e.refOld(v, e.entryHeap))
		if _, isPtr := under(fv.Type()).(*types.Pointer); isPtr && v.S == "Ref" {
			e.assert(app("distinct", v.T, "nil")) // a free variable is the address of a captured variable
		}
	}
	// package-level axioms (assumed facts about init-only package variables; listed in the trusted base)
	for _, ax := range e.cs.Axioms {
		if fn.Pkg == nil || (filepath.Base(fn.Pkg.Pkg.Path()) != ax.Pkg && shortPkg(fn.Pkg.Pkg.Path()) != ax.Pkg) {
			continue
		}
		env := e.entryEnv()
		n := len(e.unsupported)
		na := len(e.asserts)
		t := e.evalBool(ax.Expr, env)
		if len(e.unsupported) > n {
			e.unsupported = e.unsupported[:n]
			e.rollback(na)
			continue
		}
		e.assert(t)
		e.axiomsUsed = append(e.axiomsUsed, ax.Name)
	}
	// lock-set discipline: the calling thread holds no lock of the library when it enters a function, unless the function's
	// contract says otherwise by mentioning (held ...)
	{
		mentionsHeld := false
		if e.ct != nil {
			for _, r := range e.ct.Requires {
				if strings.Contains(r.String(), "(held ") {
					mentionsHeld = true
				}
			}
		}
		if !mentionsHeld {
			e.assert(app("=", e.heapGet(e.entryHeap, "$lock", "Int"), "((as const (Array Ref Int)) 0)"))
		}
	}
	// implicit preconditions
	{
		var pv []Val
		for _, p := range fn.Params {
			pv = append(pv, e.val(p))
		}
		for _, ip := range e.implicitPre(fn) {
			e.assert(e.implTerm(ip, pv, e.entryHeap))
		}
	}
	// preconditions
	if e.ct != nil {
		env := e.entryEnv()
		for _, r := range e.ct.Requires {
			if t, ok := e.evalClause(e.ct, r, env); ok {
				e.assert(t)
			}
		}
	}
	for _, b := range e.order {
		e.block(b)
	}
	// a lemma that could not be posed at any return is a mistake in the contract, not something to skip silently
	if e.ct != nil {
		for _, lm := range e.ct.Lemmas {
			if !e.lemmaDone[lm.Tag] {
				e.unsupp("lemma %s is never posed: %s", lm.Tag, e.lemmaSkipped[lm.Tag])
			}
		}
	}
}

// refOld: reference-typed value v was allocated no later than heap h's allocation counter.
func (e *Enc) refOld(v Val, h *Heap) string {
	switch v.S {
	case "Ref":
		return app("<=", e.rootOf(v.T), e.allocCounter(h))
	case "Slice":
		return app("<=", e.rootOf(app("sarr", v.T)), e.allocCounter(h))
	}
	return "true"
}

func (e *Enc) collectLocalCells() {
	// non-escaping local allocations: enumerate their scalar leaf cells so that havocs can preserve them
	// (allocations inside loops are excluded: their identity changes per iteration)
	for _, b := range e.fn.Blocks {
		for _, ins := range b.Instrs {
			a, ok := ins.(*ssa.Alloc)
			if !ok || allocEscapes(a) {
				continue
			}
			e.localAllocs = append(e.localAllocs, a)
		}
	}
}

func (e *Enc) registerLocalCells(a *ssa.Alloc, addr string) {
	if allocEscapes(a) || len(e.inLoop[a.Block()]) > 0 {
		return
	}
	var walk func(addr string, t types.Type, structName string, st *types.Struct, fi int)
	var walkT func(addr string, t types.Type)
	walkT = func(addr string, t types.Type) {
		switch u := under(t).(type) {
		case *types.Struct:
			_, name := structOf(t)
			for i := 0; i < u.NumFields(); i++ {
				walk(app("emb", addr, ilit(int64(i))), u.Field(i).Type(), name, u, i)
			}
		case *types.Array:
			if u.Len() <= 64 {
				for i := int64(0); i < u.Len(); i++ {
					walkT(app("elem", addr, ilit(i)), u.Elem())
				}
			}
		default:
			k := cellKey(t)
			e.localCells[k] = append(e.localCells[k], addr)
		}
	}
	walk = func(addr string, t types.Type, structName string, st *types.Struct, fi int) {
		switch under(t).(type) {
		case *types.Struct, *types.Array:
			walkT(addr, t)
		default:
			k := e.w.fieldKey(structName, st, fi)
			e.localCells[k] = append(e.localCells[k], addr)
		}
	}
	walkT(addr, a.Type().(*types.Pointer).Elem())
}

func (e *Enc) edgeCond(p, b *ssa.BasicBlock) string {
	r := e.reach[p]
	if len(p.Succs) == 2 {
		iff := p.Instrs[len(p.Instrs)-1].(*ssa.If)
		c := e.val(iff.Cond).T
		if p.Succs[0] == b && p.Succs[1] == b {
			return r
		}
		if p.Succs[0] == b {
			return and(r, c)
		}
		return and(r, not(c))
	}
	return r
}

func (e *Enc) namedEdge(p, b *ssa.BasicBlock) string {
	k := [2]int{p.Index, b.Index}
	if t, ok := e.edge[k]; ok {
		return t
	}
	n := fmt.Sprintf("e_%d_%d", p.Index, b.Index)
	e.declare(n, "Bool")
	e.assert(app("=", n, e.edgeCond(p, b)))
	e.edge[k] = n
	return n
}

func (e *Enc) block(b *ssa.BasicBlock) {
	e.curBlock = b
	li := e.loops[b]
	rn := fmt.Sprintf("r_%d", b.Index)
	e.declare(rn, "Bool")
	if b.Index == 0 {
		e.assert(rn)
		e.reach[b] = rn
		e.cur = e.entryHeap.clone()
	} else {
		var ps []epParent
		var conds []string
		for _, p := range b.Preds {
			if b.Dominates(p) && li != nil {
				continue // back edge
			}
			if _, done := e.reach[p]; !done {
				continue // unreachable predecessor (e.g. recover block)
			}
			c := e.namedEdge(p, b)
			conds = append(conds, c)
			ps = append(ps, epParent{cond: c, h: e.outHeap[p]})
		}
		if len(ps) == 0 {
			e.assert(not(rn))
			e.reach[b] = rn
			e.cur = e.entryHeap.clone()
		} else {
			e.assert(app("=", rn, or(conds...)))
			e.reach[b] = rn
			e.cur = e.joinHeaps(ps)
		}
	}
	if li != nil {
		e.loopHead(b, li)
	}
	for _, ins := range b.Instrs {
		if phi, ok := ins.(*ssa.Phi); ok {
			if li == nil {
				e.phi(phi)
			}
			continue
		}
		e.instr(ins)
		if len(e.unsupported) > 20 {
			return
		}
	}
	e.compact(e.cur)
	e.outHeap[b] = e.cur.clone()
	// back edges leaving this block
	for _, s := range b.Succs {
		if l2 := e.loops[s]; l2 != nil && s.Dominates(b) {
			e.backEdge(b, l2)
		}
	}
}

func (e *Enc) phi(phi *ssa.Phi) {
	b := phi.Block()
	var t string
	first := true
	for i := len(b.Preds) - 1; i >= 0; i-- {
		p := b.Preds[i]
		if _, done := e.reach[p]; !done {
			continue
		}
		v := e.val(phi.Edges[i]).T
		if first {
			t = v
			first = false
			continue
		}
		t = app("ite", e.namedEdge(p, b), v, t)
	}
	if first {
		e.havocVal(phi)
		return
	}
	e.define(phi, t)
}

// ---------------------------------------------------------------------------------------------
// loops

func (e *Enc) loopHead(b *ssa.BasicBlock, li *loopInfo) {
	li.mod = e.loopMod(li)
	// 1. invariant on entry, in the state of each entry edge
	pre := e.cur.clone()
	for _, p := range b.Preds {
		if b.Dominates(p) {
			continue
		}
		if _, done := e.reach[p]; !done {
			continue
		}
		if li.spec != nil {
			env := e.loopEnv(b, li, p, e.outHeap[p])
			for k, inv := range li.spec.Invariants {
				t := e.evalBool(inv, env)
				e.oblige("inv-entry", fmt.Sprintf("loop%d.%d", li.ordinal, k), "", b.Instrs[0].Pos(), implies(e.namedEdge(p, b), t))
			}
		}
		pidx := predIndex(b, p)
		for k, ai := range e.autoInvariants(li) {
			t := ai(func(v ssa.Value) string { return e.val(v).T }, func(ph *ssa.Phi) string { return e.val(ph.Edges[pidx]).T })
			e.oblige("inv-entry", fmt.Sprintf("loop%d.auto%d", li.ordinal, k), "", b.Instrs[0].Pos(), implies(e.namedEdge(p, b), t))
		}
	}
	// 2. havoc what the loop modifies. Cells that existed at loop entry and are not rooted at an allocation the body
	// may write (syntactic frame analysis) keep their values.
	{
		plain, except := e.w.loopFrame(li.blocks, e.fn)
		aEntry := e.allocCounter(pre)
		if os.Getenv("GOBTVC_DEBUG_FRAME") != "" {
			fmt.Fprintf(os.Stderr, "loop %d of %s: mod=%v plain=%v except=%v\n", li.ordinal, e.name, li.mod, plain, except)
		}
		var keys []string
		for k := range li.mod {
			keys = append(keys, k)
		}
		sort.Strings(keys)
		if li.mod["*"] {
			e.havocAll(e.cur)
			keys = nil
		}
		for _, k := range keys {
			exk := k
			if k == "$bytes" && e.token {
				// contents of byte slices follow the frame of the bytes themselves
				e.bytesHeap(e.cur)
				if li.mod["T:uint8"] {
					continue // havocked together with T:uint8 below
				}
				exk = "T:uint8"
			} else if plain[k] || plain["*"] || ghostPlain(k) {
				e.havocKey(e.cur, k)
				continue
			}
			if plain[exk] || plain["*"] {
				e.havocKey(e.cur, k)
				continue
			}
			var ex []string
			bad := false
			for _, v := range except[exk] {
				val, known := e.vals[v]
				if !known {
					if _, isP := v.(*ssa.Parameter); isP {
						val = e.val(v)
					} else {
						bad = true
						break
					}
				}
				switch val.S {
				case "Slice":
					ex = append(ex, e.rootOf(app("sarr", val.T)))
				case "Ref":
					ex = append(ex, e.rootOf(val.T))
				default:
					bad = true
				}
			}
			if bad {
				e.havocKey(e.cur, k)
				continue
			}
			if _, known := e.heapSort[k]; !known {
				if srt, ok := e.w.keySort(e, k); ok {
					e.heapGet(e.cur, k, srt)
				}
			}
			sort.Strings(ex)
			e.havocKeyFramed(e.cur, k, aEntry, dedup(ex))
		}
	}
	for _, ins := range b.Instrs {
		if phi, ok := ins.(*ssa.Phi); ok {
			v := e.havocVal(phi)
			e.assert(e.refOld(v, e.cur))
			// a value that only ever derives from allocations made in this function (syntactic analysis) points to
			// memory allocated after function entry
			if v.S == "Slice" || v.S == "Ref" {
				if ri := classifyRoot(phi, e.fn, map[ssa.Value]bool{}); ri.kind == rootFresh {
					a0 := e.allocCounter(e.entryHeap)
					if v.S == "Slice" {
						e.assert(or(app("=", app("sarr", v.T), "nil"), app(">", e.rootOf(app("sarr", v.T)), a0)))
					} else {
						e.assert(or(app("=", v.T, "nil"), app(">", e.rootOf(v.T), a0)))
					}
				}
			}
		}
	}
	// allocation counter only grows
	if li.mod["$A"] {
		e.assert(app(">=", e.allocCounter(e.cur), e.allocCounter(pre)))
	}
	// 3. assume the invariant
	for _, ai := range e.autoInvariants(li) {
		e.assert(implies(e.reach[b], ai(func(v ssa.Value) string { return e.val(v).T }, func(ph *ssa.Phi) string { return e.val(ph).T })))
	}
	li.headHeap = e.cur.clone()
	if li.spec != nil {
		env := e.loopEnv(b, li, nil, e.cur)
		for _, inv := range li.spec.Invariants {
			e.assert(implies(e.reach[b], e.evalBool(inv, env)))
		}
		if li.spec.Decreases != nil {
			d := e.evalInt(li.spec.Decreases, env)
			n := e.fresh("dec", "Int")
			e.assert(app("=", n, d))
			li.decAtHead = n
		}
	}
}

func (e *Enc) backEdge(p *ssa.BasicBlock, li *loopInfo) {
	b := li.head
	pos := token.NoPos
	if len(b.Instrs) > 0 {
		pos = b.Instrs[0].Pos()
	}
	cond := e.namedEdge(p, b)
	pidx := predIndex(b, p)
	for k, ai := range e.autoInvariants(li) {
		t := ai(func(v ssa.Value) string { return e.val(v).T }, func(ph *ssa.Phi) string { return e.val(ph.Edges[pidx]).T })
		e.oblige("inv-step", fmt.Sprintf("loop%d.auto%d", li.ordinal, k), "", pos, implies(cond, t))
	}
	if li.spec != nil {
		env := e.loopEnv(b, li, p, e.outHeap[p])
		for k, inv := range li.spec.Invariants {
			t := e.evalBool(inv, env)
			e.oblige("inv-step", fmt.Sprintf("loop%d.%d", li.ordinal, k), "", pos, implies(cond, t))
		}
		if li.spec.Decreases != nil {
			d := e.evalInt(li.spec.Decreases, env)
			e.oblige("dec", fmt.Sprintf("loop%d", li.ordinal), "", pos, implies(cond, and(app(">=", li.decAtHead, "0"), app("<", d, li.decAtHead))))
			return
		}
	}
	if e.rangeLoop(li) {
		return // range-over-map / string loops terminate by construction
	}
	// automatic termination measure for counted loops; otherwise the obligation is posed and left to fail
	if m, ok := e.autoMeasure(li, p); ok {
		e.oblige("dec", fmt.Sprintf("loop%d", li.ordinal), "", pos, implies(cond, m))
		return
	}
	e.oblige("dec", fmt.Sprintf("loop%d", li.ordinal), "", pos, implies(cond, "false"))
}

func (e *Enc) rangeLoop(li *loopInfo) bool {
	for _, ins := range li.head.Instrs {
		if _, ok := ins.(*ssa.Next); ok {
			return true
		}
	}
	return false
}

// loopInvariantValue: v does not change while the loop runs (syntactic check).
func (e *Enc) loopInvariantValue(v ssa.Value, li *loopInfo, depth int) bool {
	if depth > 6 {
		return false
	}
	ins, ok := v.(ssa.Instruction)
	if !ok || !li.blocks[ins.Block()] {
		return true // constants, parameters, values defined outside the loop
	}
	switch x := v.(type) {
	case *ssa.BinOp:
		return e.loopInvariantValue(x.X, li, depth+1) && e.loopInvariantValue(x.Y, li, depth+1)
	case *ssa.Convert:
		return e.loopInvariantValue(x.X, li, depth+1)
	case *ssa.ChangeType:
		return e.loopInvariantValue(x.X, li, depth+1)
	case *ssa.Call:
		if b, ok := x.Call.Value.(*ssa.Builtin); ok && (b.Name() == "len" || b.Name() == "cap") {
			return e.loopInvariantValue(x.Call.Args[0], li, depth+1)
		}
	case *ssa.UnOp:
		// a load from a loop-invariant address: accepted, autoMeasure adds "the cell still holds this value at the
		// back edge" to the obligation (see boundLoads)
		if x.Op == token.MUL && e.loopInvariantValue(x.X, li, depth+1) {
			if _, isStruct := under(x.Type()).(*types.Struct); !isStruct {
				return true
			}
		}
	}
	return false
}

// boundLoads: the loads (inside the loop) a bound expression depends on.
func (e *Enc) boundLoads(v ssa.Value, li *loopInfo, out *[]*ssa.UnOp, depth int) {
	if depth > 6 {
		return
	}
	ins, ok := v.(ssa.Instruction)
	if !ok || !li.blocks[ins.Block()] {
		return
	}
	switch x := v.(type) {
	case *ssa.BinOp:
		e.boundLoads(x.X, li, out, depth+1)
		e.boundLoads(x.Y, li, out, depth+1)
	case *ssa.Convert:
		e.boundLoads(x.X, li, out, depth+1)
	case *ssa.ChangeType:
		e.boundLoads(x.X, li, out, depth+1)
	case *ssa.Call:
		if len(x.Call.Args) > 0 {
			e.boundLoads(x.Call.Args[0], li, out, depth+1)
		}
	case *ssa.UnOp:
		if x.Op == token.MUL {
			*out = append(*out, x)
		}
	}
}

// stepOf: if v is `phi + c` / `phi - c` for a head phi of this loop, return the phi and signed step.
func stepOf(v ssa.Value, head *ssa.BasicBlock) (*ssa.Phi, int64, bool) {
	if phi, ok := v.(*ssa.Phi); ok && phi.Block() == head {
		return phi, 0, true
	}
	b, ok := v.(*ssa.BinOp)
	if !ok {
		return nil, 0, false
	}
	phi, ok := b.X.(*ssa.Phi)
	if !ok || phi.Block() != head {
		return nil, 0, false
	}
	c, ok := isConstInt(b.Y)
	if !ok {
		return nil, 0, false
	}
	switch b.Op {
	case token.ADD:
		return phi, c, true
	case token.SUB:
		return phi, -c, true
	}
	return nil, 0, false
}

// autoMeasure recognises counted loops: the head's If compares (a head phi, or phi±c) against a loop-invariant bound and
// the back edge moves the phi strictly towards the bound.
func (e *Enc) autoMeasure(li *loopInfo, p *ssa.BasicBlock) (string, bool) {
	b := li.head
	iff, ok := b.Instrs[len(b.Instrs)-1].(*ssa.If)
	if !ok {
		return "", false
	}
	cmp, ok := iff.Cond.(*ssa.BinOp)
	if !ok {
		return "", false
	}
	idx := -1
	for i, pp := range b.Preds {
		if pp == p {
			idx = i
		}
	}
	if idx < 0 {
		return "", false
	}
	try := func(x, bound ssa.Value, op token.Token) (string, bool) {
		phi, off, ok := stepOf(x, b)
		if !ok || !e.loopInvariantValue(bound, li, 0) {
			return "", false
		}
		cur := e.val(phi).T
		next := e.val(phi.Edges[idx]).T
		bd := e.val(bound).T
		o := ilit(off)
		stable := "true"
		var lds []*ssa.UnOp
		e.boundLoads(bound, li, &lds, 0)
		for _, ld := range lds {
			now := e.load(e.outHeap[p], e.val(ld.X).T, ld.X, ld.Type())
			stable = and(stable, app("=", now, e.val(ld).T))
		}
		switch op {
		case token.LSS, token.LEQ:
			// the body ran because cur+off < (<=) bound; measure bound - cur
			return and(stable, app(">", next, cur), app(">=", app("-", bd, app("+", cur, o)), "0")), true
		case token.GTR, token.GEQ:
			return and(stable, app("<", next, cur), app(">=", app("-", app("+", cur, o), bd), "0")), true
		}
		return "", false
	}
	if m, ok := try(cmp.X, cmp.Y, cmp.Op); ok {
		return m, true
	}
	flip := map[token.Token]token.Token{token.LSS: token.GTR, token.GTR: token.LSS, token.LEQ: token.GEQ, token.GEQ: token.LEQ}
	if op2, ok := flip[cmp.Op]; ok {
		if m, ok := try(cmp.Y, cmp.X, op2); ok {
			return m, true
		}
	}
	return "", false
}

// autoInvariants: for a head phi whose back-edge value is phi+c (c>0) the fact phi >= entry value, and phi <= entry
// value for c<0. They are proved like declared invariants (inv-entry/inv-step obligations), then assumed.
func (e *Enc) autoInvariants(li *loopInfo) []func(get func(ssa.Value) string, phiVal func(*ssa.Phi) string) string {
	var out []func(get func(ssa.Value) string, phiVal func(*ssa.Phi) string) string
	b := li.head
	for _, ins := range b.Instrs {
		phi, ok := ins.(*ssa.Phi)
		if !ok {
			break
		}
		if _, _, isInt := intRange(phi.Type()); !isInt {
			continue
		}
		var entry ssa.Value
		step := int64(0)
		good := true
		for i, p := range b.Preds {
			if b.Dominates(p) {
				ph, c, ok := stepOf(phi.Edges[i], b)
				if !ok || ph != phi || c == 0 || (step != 0 && (c > 0) != (step > 0)) {
					good = false
					break
				}
				step = c
			} else {
				if entry != nil && entry != phi.Edges[i] {
					good = false
					break
				}
				entry = phi.Edges[i]
			}
		}
		if !good || entry == nil || step == 0 {
			continue
		}
		phi0, entry0, step0 := phi, entry, step
		out = append(out, func(get func(ssa.Value) string, phiVal func(*ssa.Phi) string) string {
			if step0 > 0 {
				return app(">=", phiVal(phi0), get(entry0))
			}
			return app("<=", phiVal(phi0), get(entry0))
		})
		// bound side: the head guard compares phi(+off) with a loop-invariant bound
		if iff, ok := b.Instrs[len(b.Instrs)-1].(*ssa.If); ok {
			if cmp, ok := iff.Cond.(*ssa.BinOp); ok {
				x, y, op := cmp.X, cmp.Y, cmp.Op
				if _, _, isX := stepOf(x, b); !isX {
					flip := map[token.Token]token.Token{token.LSS: token.GTR, token.GTR: token.LSS, token.LEQ: token.GEQ, token.GEQ: token.LEQ}
					x, y, op = y, x, flip[op]
				}
				ph, off, ok := stepOf(x, b)
				if ok && ph == phi && e.loopInvariantValue(y, li, 0) {
					bound0 := y
					slack := step0 - 1
					if step0 < 0 {
						slack = -step0 - 1
					}
					if op == token.LEQ || op == token.GEQ {
						slack++
					}
					up := (op == token.LSS || op == token.LEQ) && step0 > 0
					down := (op == token.GTR || op == token.GEQ) && step0 < 0
					if up || down {
						out = append(out, func(get func(ssa.Value) string, phiVal func(*ssa.Phi) string) string {
							lhs := app("+", phiVal(phi0), ilit(off))
							e0 := app("+", get(entry0), ilit(off))
							bd := get(bound0)
							if up {
								return app("<=", lhs, app("+", app("ite", app(">=", bd, e0), bd, e0), ilit(slack)))
							}
							return app(">=", lhs, app("-", app("ite", app("<=", bd, e0), bd, e0), ilit(slack)))
						})
					}
				}
			}
		}
	}
	return out
}

// ---------------------------------------------------------------------------------------------
// instructions

func (e *Enc) instr(ins ssa.Instruction) {
	h := e.cur
	switch x := ins.(type) {
	case *ssa.DebugRef:
		if id, ok := x.Expr.(interface{ String() string }); ok {
			_ = id
		}
		if obj := x.Object(); obj != nil && !x.IsAddr {
			e.names[obj.Name()] = x.X
			m := e.nameAt[e.curBlock]
			if m == nil {
				m = map[string]ssa.Value{}
				e.nameAt[e.curBlock] = m
			}
			m[obj.Name()] = x.X
		}
	case *ssa.Alloc:
		a := e.newObj(h)
		e.define(x, a)
		e.assert(implies(e.reach[e.curBlock], e.typeFacts(e.vals[x].T, x.Type())))
		t := x.Type().(*types.Pointer).Elem()
		if _, isArr := under(t).(*types.Array); isArr && scratchBuffer(x, 0) {
			e.scratch = append(e.scratch, scratchObj{root: e.rootOf(a), reach: e.reach[e.curBlock], blk: e.curBlock})
		}
		e.registerLocalCells(x, e.vals[x].T)
		e.store(h, e.vals[x].T, nil, t, e.zero(t))
		if t.String() == "strings.Builder" {
			h.m["$sb"] = app("store", e.heapGet(h, "$sb", "Int"), e.vals[x].T, "0")
		}
	case *ssa.FieldAddr:
		base := e.val(x.X)
		e.oblige("nil", descOf(e.exprText(x.X, x)), "", x.Pos(), e.guardGoal(app("distinct", base.T, "nil")))
		e.define(x, app("emb", base.T, ilit(int64(x.Field))))
	case *ssa.Field:
		base := e.val(x.X)
		st := under(x.X.Type()).(*types.Struct)
		s := e.structSort(x.X.Type(), st)
		e.define(x, fmt.Sprintf("(%s_f%d %s)", s, x.Field, base.T))
	case *ssa.IndexAddr:
		base := e.val(x.X)
		idx := e.val(x.Index).T
		desc := descOf(e.exprText(x, x))
		switch u := under(x.X.Type()).(type) {
		case *types.Slice:
			e.oblige("idx", desc, "", x.Pos(), e.guardGoal(and(app("<=", "0", idx), app("<", idx, app("slen", base.T)))))
			e.define(x, app("elem", app("sarr", base.T), e.ixAdd(app("soff", base.T), idx)))
		case *types.Pointer:
			arr := under(u.Elem()).(*types.Array)
			e.oblige("nil", desc, "", x.Pos(), e.guardGoal(app("distinct", base.T, "nil")))
			e.oblige("idx", desc, "", x.Pos(), e.guardGoal(and(app("<=", "0", idx), app("<", idx, ilit(arr.Len())))))
			e.define(x, app("elem", base.T, idx))
		default:
			e.unsupp("IndexAddr on %s", x.X.Type())
		}
	case *ssa.Index:
		base := e.val(x.X)
		idx := e.val(x.Index).T
		desc := descOf(e.exprText(x, x))
		switch u := under(x.X.Type()).(type) {
		case *types.Array:
			e.oblige("idx", desc, "", x.Pos(), e.guardGoal(and(app("<=", "0", idx), app("<", idx, ilit(u.Len())))))
			e.define(x, app("select", base.T, idx))
		case *types.Basic: // string
			e.oblige("idx", desc, "", x.Pos(), e.guardGoal(and(app("<=", "0", idx), app("<", idx, app("strlen", base.T)))))
			r := e.define(x, app("strat", base.T, idx))
			e.assert(inRange(r.T, x.Type()))
		default:
			e.unsupp("Index on %s", x.X.Type())
		}
	case *ssa.Lookup:
		if b, ok := under(x.X.Type()).(*types.Basic); ok && b.Info()&types.IsString != 0 {
			base := e.val(x.X)
			idx := e.val(x.Index).T
			e.oblige("idx", descOf(e.exprText(x, x)), "", x.Pos(), e.guardGoal(and(app("<=", "0", idx), app("<", idx, app("strlen", base.T)))))
			r := e.define(x, app("strat", base.T, idx))
			e.assert(inRange(r.T, x.Type()))
			return
		}
		mv := e.val(x.X)
		kv := e.val(x.Index)
		e.lockCheckMap(x.X, false, x.Pos())
		valT := x.Type()
		if x.CommaOk {
			valT = x.Type().(*types.Tuple).At(0).Type()
		}
		// map contents are a function of (map, key, version); the version changes with every map update anywhere
		get := e.mapGet(h, mv, kv, e.sortOf(valT))
		if x.CommaOk {
			v := Val{e.fresh("mapv", e.sortOf(valT)), e.sortOf(valT)}
			ok := Val{e.fresh("mapok", "Bool"), "Bool"}
			e.assert(app("=", v.T, get))
			e.assert(app("=", ok.T, e.mapHas(h, mv, kv)))
			e.assert(e.typeFacts(v.T, valT))
			e.assert(e.refOld(v, h))
			e.assert(implies(not(ok.T), app("=", v.T, e.zero(valT))))
			e.tuples[x] = []Val{v, ok}
		} else {
			v := e.define(x, get)
			e.assert(e.typeFacts(v.T, valT))
			e.assert(e.refOld(v, h))
		}
	case *ssa.UnOp:
		e.unop(x)
	case *ssa.BinOp:
		e.binop(x)
	case *ssa.Convert:
		e.convert(x)
	case *ssa.ChangeType:
		e.define(x, e.val(x.X).T)
	case *ssa.ChangeInterface:
		e.define(x, e.val(x.X).T)
	case *ssa.MakeInterface:
		o := e.newObj(h)
		v := e.define(x, o)
		xv := e.val(x.X)
		// facts about the freshly numbered object are guarded: allocations in parallel branches may share an id
		rg := e.reach[e.curBlock]
		e.assert(implies(rg, app("=", app("dyntype", v.T), ilit(e.typeID(x.X.Type())))))
		switch xv.S {
		case "Ref":
			e.assert(implies(rg, app("=", app("unboxRef", v.T), xv.T)))
			if ts := x.X.Type().String(); ts == "*bytes.Reader" || ts == "*bytes.Buffer" {
				// the interface value inherits the reader's ghost accounting
				h.m["$consumed"] = app("store", e.heapGet(h, "$consumed", "Int"), v.T, app("select", e.heapGet(h, "$consumed", "Int"), xv.T))
				h.m["$limit"] = app("store", e.heapGet(h, "$limit", "Int"), v.T, app("select", e.heapGet(h, "$limit", "Int"), xv.T))
				if e.token {
					h.m["$rem"] = app("store", e.heapGet(h, "$rem", "B"), v.T, app("select", e.heapGet(h, "$rem", "B"), xv.T))
				}
			}
		case "Int":
			e.assert(implies(rg, app("=", app("unboxInt", v.T), xv.T)))
		}
	case *ssa.TypeAssert:
		e.typeAssert(x)
	case *ssa.MakeSlice:
		ln := e.val(x.Len).T
		cp := e.val(x.Cap).T
		elemSize := sizeofType(under(x.Type()).(*types.Slice).Elem())
		e.oblige("make", descOf(e.exprText(x, x)), "", x.Pos(), e.guardGoal(and(app("<=", "0", ln), app("<=", ln, cp), app("<=", app("*", cp, ilit(elemSize)), "281474976710656"))))
		o := e.newObj(h)
		v := e.define(x, app("mkslice", o, "0", ln, cp))
		if scratchBuffer(x, 0) {
			e.scratch = append(e.scratch, scratchObj{root: e.rootOf(o), reach: e.reach[e.curBlock], blk: e.curBlock})
		}
		if e.token && isByteSlice(x.Type()) {
			e.setBytes(h, v.T, app("bzeros", ln))
		}
		if e.precise || (e.ct != nil && e.ct.Opts["make-zero"] != "" && !isByteSlice(x.Type())) {
			// the new cells hold the zero value (always in array mode; in token mode on request: `opt make-zero 1`)
			et := under(x.Type()).(*types.Slice).Elem()
			e.zeroFill(h, app("sarr", v.T), et)
		}
		if e.ct != nil && e.ct.Opts["alloc-chunk"] != "" {
			// allocation discipline of the stream decoders (C09): no single make is sized beyond a fixed chunk, so a
			// length/count field read from the input can never dictate an allocation
			e.oblige("alloc", descOf(e.exprText(x, x)), "", x.Pos(), e.guardGoal(app("<=", app("*", cp, ilit(elemSize)), e.ct.Opts["alloc-chunk"])))
		}
	case *ssa.MakeMap, *ssa.MakeChan:
		o := e.newObj(h)
		e.define(x.(ssa.Value), o)
	case *ssa.MakeClosure:
		o := e.newObj(h)
		v := e.define(x, o)
		if fn, ok := x.Fn.(*ssa.Function); ok {
			// identity of a function value: which function it runs and, for a bound method, on which receiver
			e.assert(implies(e.reach[e.curBlock], app("=", app("fnid", v.T), ilit(globalID("func:"+e.w.closureName(fn))))))
			if strings.HasSuffix(fn.Name(), "$bound") && len(x.Bindings) == 1 {
				if rv := e.val(x.Bindings[0]); rv.S == "Ref" {
					e.assert(implies(e.reach[e.curBlock], app("=", app("fnrecv", v.T), rv.T)))
				}
			}
		}
	case *ssa.Slice:
		e.sliceOp(x)
	case *ssa.Extract:
		tv, ok := e.tuples[x.Tuple]
		if !ok || x.Index >= len(tv) {
			e.havocVal(x)
			return
		}
		e.vals[x] = tv[x.Index]
	case *ssa.Call:
		e.call(x, x.Common(), x)
	case *ssa.Defer:
		if len(e.inLoop[e.curBlock]) > 0 {
			e.unsupp("defer inside a loop")
		}
		for _, a := range x.Call.Args {
			e.val(a)
		}
		e.defers = append(e.defers, deferred{ins: x, block: e.curBlock})
		h.m[fmt.Sprintf("$s:defer%d", len(e.defers)-1)] = "true"
		e.heapSort[fmt.Sprintf("$s:defer%d", len(e.defers)-1)] = "Bool"
	case *ssa.RunDefers:
		for i := len(e.defers) - 1; i >= 0; i-- {
			d := e.defers[i]
			if d.block.Dominates(e.curBlock) {
				e.call(d.ins, d.ins.Common(), nil)
				continue
			}
			// conditionally registered defer: run it on a forked heap under its ghost flag, then join
			cond := e.fresh("deferred", "Bool")
			e.assert(app("=", cond, e.heapGet(e.cur, fmt.Sprintf("$s:defer%d", i), "Bool")))
			saved := e.cur
			e.cur = saved.clone()
			oldReach := e.reach[e.curBlock]
			e.reach[e.curBlock] = and(oldReach, cond)
			e.call(d.ins, d.ins.Common(), nil)
			e.reach[e.curBlock] = oldReach
			e.cur = e.joinHeaps([]epParent{{cond: cond, h: e.cur}, {cond: "true", h: saved}})
		}
	case *ssa.Go:
		e.unsupp("go statement")
	case *ssa.Select, *ssa.Send:
		e.unsupp("channel operation")
	case *ssa.Range:
		e.val(x.X)
		e.lockCheckMap(x.X, false, x.Pos())
		e.define(x, e.newObj(h))
	case *ssa.Next:
		tt := x.Type().(*types.Tuple)
		var vs []Val
		for i := 0; i < tt.Len(); i++ {
			s := e.sortOf(tt.At(i).Type())
			if _, isInvalid := tt.At(i).Type().(*types.Basic); isInvalid && tt.At(i).Type().String() == "invalid type" {
				s = "Int"
			}
			v := Val{e.fresh("next", s), s}
			e.assert(e.typeFacts(v.T, tt.At(i).Type()))
			e.assert(e.refOld(v, h))
			vs = append(vs, v)
		}
		e.tuples[x] = vs
	case *ssa.Store:
		addr := e.val(x.Addr)
		t := x.Addr.Type().Underlying().(*types.Pointer).Elem()
		e.nilCheck(addr.T, x.Addr, x.Pos(), "store")
		var tokUpd func()
		if ia, isIA := x.Addr.(*ssa.IndexAddr); isIA && e.token {
			if isByteSlice(ia.X.Type()) {
				// b[i] = v: the content of THIS slice header is updated (other headers over the same array are not
				// followed: the side condition of the byte-string view, DESIGN.md 3.2)
				sv := e.val(ia.X)
				iv := e.val(ia.Index)
				old := e.tokBytes(h, sv.T)
				nv := app("bcat", app("bsub", old, "0", iv.T), app("bcat", app("b1", e.val(x.Val).T), app("bsub", old, app("+", iv.T, "1"), app("slen", sv.T))))
				tokUpd = func() { e.setBytes(e.cur, sv.T, nv) }
			}
		}
		e.globalWriteCheck(x)
		e.frameCheck(x, addr.T)
		e.lockCheck(x.Addr, true, x.Pos())
		if c, isHash := e.hashArr[x.Val]; isHash {
			if al, isAl := x.Addr.(*ssa.Alloc); isAl && onlyStoredOnceAndSliced(al, x) {
				// `hash := sha256.Sum256(buf)`: the local array holds the digest; `hash[:]` has that content
				if e.allocHash == nil {
					e.allocHash = map[ssa.Value]string{}
				}
				e.allocHash[al] = c
			}
		}
		e.store(h, addr.T, x.Addr, t, e.val(x.Val).T)
		if tokUpd != nil {
			tokUpd()
		}
	case *ssa.MapUpdate:
		m := e.val(x.Map)
		kv := e.val(x.Key)
		vv := e.val(x.Value)
		e.oblige("mapnil", descOf(e.exprText(x.Map, x)), "", x.Pos(), e.guardGoal(app("distinct", m.T, "nil")))
		e.lockCheckMap(x.Map, true, x.Pos())
		e.globalMapWriteCheck(x.Map, x.Pos())
		e.heapSort["$s:map"] = "Int"
		h.m["$s:map"] = e.fresh("mapver", "Int")
		e.assert(implies(e.reach[e.curBlock], and(app("=", e.mapGet(h, m, kv, vv.S), vv.T), e.mapHas(h, m, kv))))
	case *ssa.Panic:
		e.val(x.X)
		e.oblige("panic", "", "", x.Pos(), not(e.reach[e.curBlock]))
	case *ssa.Return:
		e.ret(x)
	case *ssa.If, *ssa.Jump:
		if iff, ok := x.(*ssa.If); ok {
			e.val(iff.Cond)
		}
	default:
		e.unsupp("instruction %T", ins)
	}
}

func sizeofType(t types.Type) int64 {
	switch u := under(t).(type) {
	case *types.Basic:
		switch u.Kind() {
		case types.Bool, types.Int8, types.Uint8:
			return 1
		case types.Int16, types.Uint16:
			return 2
		case types.Int32, types.Uint32, types.Float32:
			return 4
		case types.String:
			return 16
		}
		return 8
	case *types.Slice:
		return 24
	case *types.Interface:
		return 16
	case *types.Struct:
		var n int64
		for i := 0; i < u.NumFields(); i++ {
			n += (sizeofType(u.Field(i).Type()) + 7) / 8 * 8
		}
		if n == 0 {
			n = 1
		}
		return n
	case *types.Array:
		return u.Len() * sizeofType(u.Elem())
	}
	return 8
}

var typeIDs = map[string]int64{}
var typeIDUsed = map[int64]string{}

func (e *Enc) typeID(t types.Type) int64 {
	k := t.String()
	if id, ok := typeIDs[k]; ok {
		return id
	}
	// order-independent: the same type has the same id in every run and cone
	id := int64(1 + hashStr(k)%1000000000)
	for {
		if other, taken := typeIDUsed[id]; !taken || other == k {
			break
		}
		id++
	}
	typeIDUsed[id] = k
	typeIDs[k] = id
	return id
}

// exprText: source text of the expression that produced v (via DebugRef), else a structural description.
func (e *Enc) exprText(v ssa.Value, at ssa.Instruction) string {
	if refs := v.Referrers(); refs != nil {
		best := ""
		for _, r := range *refs {
			if d, ok := r.(*ssa.DebugRef); ok && d.X == v && d.Expr != nil {
				if id, isId := d.Expr.(*ast.Ident); isId {
					return id.Name
				}
				if best == "" {
					best = e.w.srcText(d.Expr.Pos(), d.Expr.End())
				}
			}
		}
		if best != "" {
			return best
		}
	}
	switch x := v.(type) {
	case *ssa.IndexAddr:
		return e.exprText(x.X, at) + "[" + e.exprText(x.Index, at) + "]"
	case *ssa.FieldAddr:
		st, _ := structOf(x.X.Type())
		if st != nil {
			return e.exprText(x.X, at) + "." + st.Field(x.Field).Name()
		}
	case *ssa.Parameter:
		return x.Name()
	case *ssa.Const:
		if x.Value != nil {
			return x.Value.ExactString()
		}
		return "nil"
	case *ssa.UnOp:
		if x.Op == token.MUL {
			return "*" + e.exprText(x.X, at)
		}
	case *ssa.Phi:
		return x.Comment
	case *ssa.Alloc:
		return x.Comment
	case *ssa.Slice:
		return e.exprText(x.X, at) + "[:]"
	case *ssa.Call:
		if f := x.Call.StaticCallee(); f != nil {
			return f.Name() + "()"
		}
		if x.Call.IsInvoke() {
			return x.Call.Method.Name() + "()"
		}
		if b, ok := x.Call.Value.(*ssa.Builtin); ok {
			if len(x.Call.Args) > 0 {
				return b.Name() + "(" + e.exprText(x.Call.Args[0], at) + ")"
			}
		}
	case *ssa.Extract:
		return e.exprText(x.Tuple, at) + fmt.Sprintf(".%d", x.Index)
	case *ssa.BinOp:
		return e.exprText(x.X, at) + x.Op.String() + e.exprText(x.Y, at)
	case *ssa.Convert:
		return e.exprText(x.X, at)
	case *ssa.ChangeType:
		return e.exprText(x.X, at)
	case *ssa.Field:
		st, _ := under(x.X.Type()).(*types.Struct)
		if st != nil {
			return e.exprText(x.X, at) + "." + st.Field(x.Field).Name()
		}
	case *ssa.Global:
		return x.Name()
	case *ssa.FreeVar:
		return x.Name()
	}
	return "_"
}

func (e *Enc) nilCheck(addr string, addrV ssa.Value, pos token.Pos, what string) {
	switch addrV.(type) {
	case *ssa.FieldAddr, *ssa.IndexAddr, *ssa.Alloc, *ssa.Global:
		return // cannot be nil (their own obligations cover the base)
	}
	e.oblige("nil", descOf(e.exprText(addrV, nil)), "", pos, e.guardGoal(app("distinct", addr, "nil")))
}

var stdErrVar = map[string]bool{"io.EOF": true, "io.ErrUnexpectedEOF": true, "io.ErrShortBuffer": true, "io.ErrShortWrite": true}

func (e *Enc) unop(x *ssa.UnOp) {
	v := e.val(x.X)
	switch x.Op {
	case token.MUL:
		if g, ok := x.X.(*ssa.Global); ok && e.w.NonNilGlobal[g] {
			// init-only package-level error value: a fixed non-nil object, distinct per variable
			e.define(x, app("obj", ilit(globalID("val:"+g.String()))))
			return
		}
		if g, ok := x.X.(*ssa.Global); ok && stdErrVar[g.String()] {
			// sentinel errors of the standard library: fixed non-nil values (assumption, listed in the evidence)
			e.trustedUsed["standard library sentinel error "+g.String()+" is a fixed non-nil value"] = true
			e.define(x, app("obj", ilit(globalID("val:"+g.String()))))
			return
		}
		if t, ok := e.tableLoad(x); ok {
			r := e.define(x, t)
			e.assert(e.typeFacts(r.T, x.Type()))
			return
		}
		e.nilCheck(v.T, x.X, x.Pos(), "load")
		e.lockCheck(x.X, false, x.Pos())
		t := e.load(e.cur, v.T, x.X, x.Type())
		r := e.define(x, t)
		e.assert(implies(e.reach[e.curBlock], e.typeFacts(r.T, x.Type())))
		e.assert(e.refOld(r, e.cur))
		e.byteSliceEnters(e.cur, r, x.Type(), e.reach[e.curBlock])
		if ia, isIA := x.X.(*ssa.IndexAddr); isIA && e.token && isByteSlice(ia.X.Type()) {
			// reading one byte of a slice = reading its content
			e.assert(implies(e.reach[e.curBlock], app("=", r.T, app("bat", e.tokBytes(e.cur, e.val(ia.X).T), e.val(ia.Index).T))))
		}
		if srt := e.sortOf(x.Type()); srt == "Ref" || srt == "Slice" {
			e.loadedRefFacts(e.cur, e.keyForAddr(x.X, x.Type()), srt, v.T)
			// a value loaded from a private local cell into which only fresh values are ever stored (syntactic
			// analysis) points to memory allocated by this function
			if _, isAlloc := x.X.(*ssa.Alloc); isAlloc {
				if ri := classifyRoot(x, e.fn, map[ssa.Value]bool{}); ri.kind == rootFresh {
					a0 := e.allocCounter(e.entryHeap)
					if srt == "Slice" {
						e.assert(or(app("=", app("sarr", r.T), "nil"), app(">", e.rootOf(app("sarr", r.T)), a0)))
					} else {
						e.assert(or(app("=", r.T, "nil"), app(">", e.rootOf(r.T), a0)))
					}
				}
			}
		}
		if fa, ok := x.X.(*ssa.FieldAddr); ok && len(e.cs.FieldAssume) > 0 {
			if st, name := structOf(fa.X.Type()); st != nil {
				if ax := e.cs.FieldAssume[name+"."+st.Field(fa.Field).Name()]; ax != nil {
					env := e.entryEnv()
					env.heap = e.cur
					env.names["value"] = binding{r, x.Type()}
					e.assert(e.evalBool(ax, env))
					e.trustedUsed["assumed field fact "+name+"."+st.Field(fa.Field).Name()+": "+ax.String()] = true
				}
			}
		}
	case token.NOT:
		e.define(x, not(v.T))
	case token.SUB:
		if v.S == "Real" {
			e.define(x, app("-", v.T))
			return
		}
		e.ovfCheck(x, app("-", v.T), x.Type(), x.Pos())
		e.define(x, wrapTo(app("-", v.T), x.Type()))
	case token.XOR:
		lo, hi, _ := intRange(x.Type())
		if lo.Sign() < 0 {
			e.define(x, app("-", app("-", v.T), "1"))
		} else {
			e.define(x, app("-", intLit(hi), v.T))
		}
	case token.ARROW:
		e.unsupp("channel receive")
	default:
		e.unsupp("unop %s", x.Op)
	}
}

func (e *Enc) ovfCheck(x ssa.Value, math string, t types.Type, pos token.Pos) {
	if !e.checkOvf {
		return
	}
	if _, _, ok := intRange(t); !ok {
		return
	}
	var ins ssa.Instruction
	if i, ok := x.(ssa.Instruction); ok {
		ins = i
	}
	e.oblige("ovf", descOf(e.exprText(x, ins)), "", pos, e.guardGoal(inRange(math, t)))
}

func isConstInt(v ssa.Value) (int64, bool) {
	c, ok := v.(*ssa.Const)
	if !ok || c.Value == nil {
		return 0, false
	}
	if _, _, isInt := intRange(c.Type()); !isInt {
		return 0, false
	}
	n, exact := c.Int64(), true
	return n, exact
}

func (e *Enc) binop(x *ssa.BinOp) {
	a, b := e.val(x.X), e.val(x.Y)
	t := x.Type()
	switch x.Op {
	case token.EQL, token.NEQ:
		var eq string
		if a.S == "Slice" {
			// only comparison against nil is legal for slices
			if _, isC := x.Y.(*ssa.Const); isC {
				eq = app("=", app("sarr", a.T), "nil")
			} else {
				eq = app("=", app("sarr", b.T), "nil")
			}
		} else {
			eq = app("=", a.T, b.T)
		}
		if x.Op == token.NEQ {
			eq = not(eq)
		}
		e.define(x, eq)
		return
	case token.LSS, token.LEQ, token.GTR, token.GEQ:
		op := map[token.Token]string{token.LSS: "<", token.LEQ: "<=", token.GTR: ">", token.GEQ: ">="}[x.Op]
		if a.S == "Str" {
			n := e.fresh("strcmp", "Bool")
			e.define(x, n)
			return
		}
		e.define(x, app(op, a.T, b.T))
		return
	}
	if a.S == "Str" && x.Op == token.ADD {
		n := e.fresh("cat", "Str")
		e.assert(app("=", app("strlen", n), app("+", app("strlen", a.T), app("strlen", b.T))))
		if e.token {
			e.needB = true
			e.assert(app("=", app("bstr", n), app("bcat", app("bstr", a.T), app("bstr", b.T))))
		}
		e.define(x, n)
		return
	}
	if a.S == "Real" {
		op := map[token.Token]string{token.ADD: "+", token.SUB: "-", token.MUL: "*", token.QUO: "/"}[x.Op]
		if op == "" {
			e.unsupp("float op %s", x.Op)
			return
		}
		// IEEE-754 binary64, standard model: fl(a op b) = (a op b)(1 + d), |d| <= 2^-53 (no overflow/underflow,
		// assumed and listed in the trusted base)
		e.trustedUsed["IEEE-754 standard model for float64 arithmetic: |fl(x op y) - (x op y)| <= |x op y| * 2^-53; values stay in the normal range"] = true
		if op == "/" {
			e.oblige("div0", "float:"+descOf(e.exprText(x, x)), "", x.Pos(), e.guardGoal(app("distinct", b.T, "0.0")))
		}
		// additive form keeps the constraint linear whenever the exact result is linear in the unknowns
		exact := e.fresh("fpx", "Real")
		e.assert(app("=", exact, app(op, a.T, b.T)))
		r := e.fresh("fpr", "Real")
		absx := app("ite", app(">=", exact, "0.0"), exact, app("-", exact))
		bound := app("*", absx, "(/ 1.0 9007199254740992.0)")
		e.assert(and(app("<=", app("-", r, exact), bound), app("<=", app("-", exact, r), bound)))
		e.define(x, r)
		return
	}
	if a.S == "Bool" {
		switch x.Op {
		case token.AND:
			e.define(x, and(a.T, b.T))
		case token.OR:
			e.define(x, or(a.T, b.T))
		case token.XOR:
			e.define(x, app("xor", a.T, b.T))
		default:
			e.unsupp("bool op %s", x.Op)
		}
		return
	}
	_, hi, _ := intRange(t)
	bits, signed := intBits(t)
	switch x.Op {
	case token.ADD, token.SUB, token.MUL:
		op := map[token.Token]string{token.ADD: "+", token.SUB: "-", token.MUL: "*"}[x.Op]
		m := app(op, a.T, b.T)
		e.ovfCheck(x, m, t, x.Pos())
		if e.checkOvf {
			// `int-overflow check`: the no-overflow obligation just posed must be discharged for the function to be
			// claimed; downstream the mathematical value is used (listed as such in the evidence)
			if _, _, isInt := intRange(t); isInt {
				e.assert(implies(e.reach[e.curBlock], inRange(m, t)))
				e.define(x, m)
				return
			}
		}
		e.define(x, wrapTo(m, t))
	case token.QUO, token.REM:
		e.oblige("div0", descOf(e.exprText(x, x)), "", x.Pos(), e.guardGoal(app("distinct", b.T, "0")))
		// Go truncates toward zero; SMT div/mod are Euclidean (floor for positive divisor)
		var r string
		if !signed {
			if x.Op == token.QUO {
				r = app("div", a.T, b.T)
			} else {
				r = app("mod", a.T, b.T)
			}
		} else {
			q := fmt.Sprintf("(ite (>= %s 0) (div %s %s) (- (div (- %s) %s)))", a.T, a.T, b.T, a.T, b.T)
			if x.Op == token.QUO {
				r = wrapTo(q, t)
			} else {
				r = fmt.Sprintf("(- %s (* %s %s))", a.T, b.T, q)
			}
		}
		e.define(x, r)
	case token.AND:
		if c, ok := isConstInt(x.Y); ok && c >= 0 && isPow2(c+1) && !signed {
			e.define(x, app("mod", a.T, ilit(c+1)))
		} else if c, ok := isConstInt(x.X); ok && c >= 0 && isPow2(c+1) && !signed {
			e.define(x, app("mod", b.T, ilit(c+1)))
		} else if c, ok := isConstInt(x.Y); ok && c >= 0 && isPow2(c) && !signed {
			// single-bit test: x & 2^k = 2^k * ((x div 2^k) mod 2)
			e.define(x, app("*", ilit(c), app("mod", app("div", a.T, ilit(c)), "2")))
		} else {
			e.bitop(x, "bitand", a, b, t)
		}
	case token.OR:
		e.bitop(x, "bitor", a, b, t)
	case token.XOR:
		if c, ok := isConstInt(x.Y); ok && c > 0 && isPow2(c) && !signed && uint(c) < (uint(1)<<(bits-1))*2 {
			// toggling a single bit: x ^ 2^k = x + 2^k - 2*2^k*bit_k(x)
			e.define(x, app("-", app("+", a.T, ilit(c)), app("*", ilit(2*c), app("mod", app("div", a.T, ilit(c)), "2"))))
		} else {
			e.bitop(x, "bitxor", a, b, t)
		}
	case token.AND_NOT:
		if c, ok := isConstInt(x.Y); ok && c > 0 && isPow2(c) && !signed {
			// clearing a single bit: x &^ 2^k = x - 2^k*bit_k(x)
			e.define(x, app("-", a.T, app("*", ilit(c), app("mod", app("div", a.T, ilit(c)), "2"))))
		} else {
			e.bitop(x, "bitandnot", a, b, t)
		}
	case token.SHL, token.SHR:
		if _, ysigned := intBits(x.Y.Type()); ysigned {
			if _, isC := x.Y.(*ssa.Const); !isC {
				e.oblige("shift", descOf(e.exprText(x, x)), "", x.Pos(), e.guardGoal(app(">=", b.T, "0")))
			}
		}
		if c, ok := isConstInt(x.Y); ok && c >= 0 && c < 64 {
			p := pow2(uint(c)).String()
			if x.Op == token.SHL {
				if uint(c) >= bits {
					e.define(x, "0")
				} else {
					e.define(x, wrapTo(app("*", a.T, p), t))
				}
			} else {
				e.define(x, app("div", a.T, p)) // floor division = arithmetic shift for negatives too
			}
			return
		}
		fn := "shl"
		if x.Op == token.SHR {
			fn = "shr"
		}
		raw := e.fresh("shraw", "Int")
		e.assert(app("=", raw, app(fn, a.T, b.T)))
		nn := and(app(">=", a.T, "0"), app(">=", b.T, "0"))
		if fn == "shr" {
			e.assert(implies(nn, and(app(">=", raw, "0"), app("<=", raw, a.T))))
		} else {
			e.assert(implies(nn, app(">=", raw, "0")))
		}
		e.define(x, wrapTo(raw, t))
		_ = hi
	default:
		e.unsupp("binop %s", x.Op)
	}
}

// onlyStoredOnceAndSliced: the local array is written by this one store and otherwise only sliced.
func onlyStoredOnceAndSliced(al *ssa.Alloc, st *ssa.Store) bool {
	for _, r := range *al.Referrers() {
		switch x := r.(type) {
		case *ssa.Store:
			if x != st {
				return false
			}
		case *ssa.Slice:
		case *ssa.DebugRef:
		default:
			return false
		}
	}
	return true
}

func isPow2(n int64) bool { return n > 0 && n&(n-1) == 0 }

func (e *Enc) bitop(x *ssa.BinOp, fn string, a, b Val, t types.Type) {
	r := e.define(x, app(fn, a.T, b.T))
	e.assert(inRange(r.T, t))
	nn := and(app(">=", a.T, "0"), app(">=", b.T, "0"))
	switch fn {
	case "bitand":
		e.assert(implies(nn, and(app(">=", r.T, "0"), app("<=", r.T, a.T), app("<=", r.T, b.T))))
		if bits, signed := intBits(t); bits <= 32 && !signed {
			// small unsigned operands: masking with a single bit (flag tests such as f&shf == shf with shf a power of two)
			for k := uint(0); k < bits; k++ {
				p2 := pow2(k).String()
				e.assert(implies(app("=", b.T, p2), app("=", r.T, app("*", p2, app("mod", app("div", a.T, p2), "2")))))
				e.assert(implies(app("=", a.T, p2), app("=", r.T, app("*", p2, app("mod", app("div", b.T, p2), "2")))))
			}
		}
	case "bitor":
		e.assert(implies(nn, and(app(">=", r.T, a.T), app(">=", r.T, b.T), app("<=", r.T, app("+", a.T, b.T)))))
	case "bitxor":
		e.assert(implies(nn, and(app(">=", r.T, "0"), app("<=", r.T, app("+", a.T, b.T)))))
	case "bitandnot":
		e.assert(implies(nn, and(app(">=", r.T, "0"), app("<=", r.T, a.T))))
	}
}

func (e *Enc) convert(x *ssa.Convert) {
	v := e.val(x.X)
	from, to := x.X.Type(), x.Type()
	fs, ts := e.sortOf(from), e.sortOf(to)
	switch {
	case fs == "Int" && ts == "Int":
		e.define(x, wrapTo(v.T, to))
	case fs == "Int" && ts == "Real":
		// exact for |v| < 2^53, otherwise rounded to nearest
		d := e.fresh("fpd", "Real")
		e.assert(and(app("<=", "(- (/ 1.0 9007199254740992.0))", d), app("<=", d, "(/ 1.0 9007199254740992.0)")))
		e.define(x, app("ite", and(app("<", v.T, "9007199254740992"), app(">", v.T, "(- 9007199254740992)")), app("to_real", v.T), app("*", app("to_real", v.T), app("+", "1.0", d))))
	case fs == "Real" && ts == "Int":
		// float -> int truncation toward zero (values out of range are implementation-defined: havoc in range)
		// truncation toward zero; out-of-range results are implementation-defined in Go: an obligation
		// truncation toward zero when the value fits; otherwise the result is implementation-defined (no panic): any value
		tr := e.fresh("trunc", "Int")
		trr := app("to_real", tr)
		e.assert(implies(app(">=", v.T, "0.0"), and(app("<=", trr, v.T), app(">", app("+", trr, "1.0"), v.T))))
		e.assert(implies(app("<", v.T, "0.0"), and(app(">=", trr, v.T), app("<", app("-", trr, "1.0"), v.T))))
		anyv := e.fresh("fconv", "Int")
		e.assert(inRange(anyv, to))
		e.define(x, app("ite", inRange(tr, to), tr, anyv))
	case fs == "Real" && ts == "Real":
		e.define(x, v.T)
	case fs == "Slice" && ts == "Str":
		n := e.fresh("s2str", "Str")
		e.assert(app("=", app("strlen", n), app("slen", v.T)))
		if e.token && isByteSlice(from) {
			e.assert(implies(e.reach[e.curBlock], app("=", app("bstr", n), e.tokBytes(e.cur, v.T))))
		}
		e.define(x, n)
	case fs == "Str" && ts == "Slice":
		o := e.newObj(e.cur)
		ln := app("strlen", v.T)
		c := e.fresh("cap", "Int")
		e.assert(and(app(">=", c, ln), app("<=", c, "1099511627776")))
		r := e.define(x, app("mkslice", o, "0", ln, c))
		if e.token && isByteSlice(to) {
			e.setBytes(e.cur, r.T, app("bstr", v.T))
		}
	case fs == "Int" && ts == "Str":
		n := e.fresh("r2str", "Str")
		e.assert(and(app(">=", app("strlen", n), "1"), app("<=", app("strlen", n), "4")))
		e.define(x, n)
	case fs == ts:
		e.define(x, v.T)
	default:
		e.unsupp("convert %s -> %s", from, to)
		e.havocVal(x)
	}
}

func (e *Enc) typeAssert(x *ssa.TypeAssert) {
	v := e.val(x.X)
	_, toIface := under(x.AssertedType).(*types.Interface)
	okT := app("=", app("dyntype", v.T), ilit(e.typeID(x.AssertedType)))
	if toIface {
		okT = e.fresh("implements", "Bool")
	}
	valSort := e.sortOf(x.AssertedType)
	var val string
	switch {
	case toIface:
		val = v.T
	case valSort == "Ref":
		val = app("unboxRef", v.T)
	case valSort == "Int":
		val = app("unboxInt", v.T)
	default:
		val = e.fresh("unbox", valSort)
		e.assert(e.typeFacts(val, x.AssertedType))
	}
	if x.CommaOk {
		ok := e.fresh("taok", "Bool")
		e.assert(app("=", ok, and(app("distinct", v.T, "nil"), okT)))
		vv := e.fresh("taval", valSort)
		e.assert(app("=", vv, app("ite", ok, val, e.zero(x.AssertedType))))
		e.assert(e.typeFacts(vv, x.AssertedType))
		e.tuples[x] = []Val{{vv, valSort}, {ok, "Bool"}}
		return
	}
	e.oblige("assert", descOf(e.exprText(x.X, x)), "", x.Pos(), e.guardGoal(and(app("distinct", v.T, "nil"), okT)))
	r := e.define(x, val)
	e.assert(e.typeFacts(r.T, x.AssertedType))
}

func (e *Enc) sliceOp(x *ssa.Slice) {
	v := e.val(x.X)
	desc := descOf(e.exprText(x, x))
	get := func(val ssa.Value, def string) string {
		if val == nil {
			return def
		}
		return e.val(val).T
	}
	switch u := under(x.X.Type()).(type) {
	case *types.Slice:
		lo := get(x.Low, "0")
		hi := get(x.High, app("slen", v.T))
		mx := get(x.Max, app("scap", v.T))
		e.oblige("slice", desc, "", x.Pos(), e.guardGoal(and(app("<=", "0", lo), app("<=", lo, hi), app("<=", hi, mx), app("<=", mx, app("scap", v.T)))))
		r := e.define(x, app("mkslice", app("sarr", v.T), app("+", app("soff", v.T), lo), app("-", hi, lo), app("-", mx, lo)))
		if e.token && isByteSlice(x.X.Type()) {
			e.setBytes(e.cur, r.T, app("bsub", e.tokBytes(e.cur, v.T), lo, hi))
		}
	case *types.Basic: // string
		lo := get(x.Low, "0")
		hi := get(x.High, app("strlen", v.T))
		e.oblige("slice", desc, "", x.Pos(), e.guardGoal(and(app("<=", "0", lo), app("<=", lo, hi), app("<=", hi, app("strlen", v.T)))))
		n := e.fresh("substr", "Str")
		e.assert(implies(and(app("<=", "0", lo), app("<=", lo, hi)), app("=", app("strlen", n), app("-", hi, lo))))
		e.define(x, n)
	case *types.Pointer:
		arr := under(u.Elem()).(*types.Array)
		n := ilit(arr.Len())
		lo := get(x.Low, "0")
		hi := get(x.High, n)
		mx := get(x.Max, n)
		e.oblige("nil", desc, "", x.Pos(), e.guardGoal(app("distinct", v.T, "nil")))
		e.oblige("slice", desc, "", x.Pos(), e.guardGoal(and(app("<=", "0", lo), app("<=", lo, hi), app("<=", hi, mx), app("<=", mx, n))))
		r := e.define(x, app("mkslice", v.T, lo, app("-", hi, lo), app("-", mx, lo)))
		if c, isHash := e.allocHash[x.X]; isHash && e.token && x.Low == nil && x.High == nil && x.Max == nil {
			e.setBytes(e.cur, r.T, c)
		} else if al, isAl := x.X.(*ssa.Alloc); isAl && e.token && typeKey(arr.Elem()) == "uint8" && onlySliced(al, x) {
			// make([]byte, n) / make([]byte, n, N): a fresh zeroed array that is reachable through this slice only
			e.setBytes(e.cur, r.T, app("bzeros", app("-", hi, lo)))
		} else if e.token && typeKey(arr.Elem()) == "uint8" && arr.Len() <= e.arrayExpandMax() {
			// a byte-array literal: its content is the cells as they are now
			e.setBytes(e.cur, r.T, e.bytesExpand(e.cur, r.T, int(arr.Len())))
		}
	default:
		e.unsupp("slice of %s", x.X.Type())
	}
}

// onlySliced: the allocation is used by this slice expression and nothing else.
func onlySliced(al *ssa.Alloc, sl *ssa.Slice) bool {
	if al.Referrers() == nil {
		return false
	}
	for _, r := range *al.Referrers() {
		switch u := r.(type) {
		case *ssa.DebugRef:
		case *ssa.Slice:
			if u != sl {
				return false
			}
		default:
			return false
		}
	}
	return true
}

// zeroFill: all cells of the fresh array arr (element type et) are zero (precise mode only).
// arrayExpandMax: byte arrays up to this length have their slices' content read from the cells (16; `opt array-expand N`).
func (e *Enc) arrayExpandMax() int64 {
	if e.ct != nil && e.ct.Opts["array-expand"] != "" {
		if n, err := strconv.Atoi(e.ct.Opts["array-expand"]); err == nil {
			return int64(n)
		}
	}
	return 16
}

func (e *Enc) zeroFill(h *Heap, arr string, et types.Type) {
	if _, isStruct := under(et).(*types.Struct); isStruct {
		return
	}
	if _, isArr := under(et).(*types.Array); isArr {
		return
	}
	key := cellKey(et)
	srt := e.sortOf(et)
	old := e.heapGet(h, key, srt)
	n := e.fresh("H_"+sanitize(key), "(Array Ref "+srt+")")
	e.assert(fmt.Sprintf("(forall ((r Ref)) (! (= (select %s r) (ite (and ((_ is elem) r) (= (ebase r) %s)) %s (select %s r))) :pattern ((select %s r))))", n, arr, e.zero(et), old, n))
	h.m[key] = n
}

func (e *Enc) ret(x *ssa.Return) {
	if e.ct == nil {
		return
	}
	env := e.exitEnv(x)
	// lemmas: intermediate facts over the function's locals, proved at each return where the names are defined and then
	// available to the postconditions (proof hints; they are obligations of class `lemma`, never assumptions)
	if len(e.ct.Lemmas) > 0 {
		lenv := *env
		lenv.names = map[string]binding{}
		for k, v := range env.names {
			lenv.names[k] = v
		}
		for b := e.curBlock; b != nil; b = b.Idom() {
			for n, v := range e.nameAt[b] {
				if _, dup := lenv.names[n]; dup {
					continue
				}
				if val, known := e.vals[v]; known {
					lenv.names[n] = binding{val, v.Type()}
				}
			}
			// variables merged at the top of a dominating block
			for _, ins := range b.Instrs {
				phi, ok := ins.(*ssa.Phi)
				if !ok {
					break
				}
				if phi.Comment == "" {
					continue
				}
				if _, dup := lenv.names[phi.Comment]; dup {
					continue
				}
				if val, known := e.vals[phi]; known {
					lenv.names[phi.Comment] = binding{val, phi.Type()}
				}
			}
		}
		// address-taken locals (var x T; f(&x)): name -> current content
		for _, b := range e.fn.Blocks {
			for _, ins := range b.Instrs {
				a, ok := ins.(*ssa.Alloc)
				if !ok || a.Comment == "" || !b.Dominates(e.curBlock) {
					continue
				}
				if _, dup := lenv.names[a.Comment]; dup {
					continue
				}
				if av, known := e.vals[a]; known {
					t := a.Type().(*types.Pointer).Elem()
					switch under(t).(type) {
					case *types.Struct, *types.Array:
						lenv.names[a.Comment] = binding{av, a.Type()}
					default:
						lenv.names[a.Comment] = binding{Val{e.load(e.cur, av.T, a, t), e.sortOf(t)}, t}
					}
				}
			}
		}
		for _, lm := range e.ct.Lemmas {
			n := len(e.unsupported)
			na := len(e.asserts)
			t := e.evalBool(lm.Expr, &lenv)
			if len(e.unsupported) > n {
				// a local the lemma mentions is not defined on the paths to this return
				if e.lemmaSkipped == nil {
					e.lemmaSkipped = map[string]string{}
				}
				e.lemmaSkipped[lm.Tag] = e.unsupported[n]
				e.unsupported = e.unsupported[:n]
				e.rollback(na)
				continue
			}
			if e.lemmaDone == nil {
				e.lemmaDone = map[string]bool{}
			}
			e.lemmaDone[lm.Tag] = true
			g := e.guardGoal(t)
			e.oblige("lemma", lm.Tag, "", x.Pos(), g)
			e.assert(g)
		}
	}
	var retTerms []string
	for _, rv := range x.Results {
		retTerms = append(retTerms, e.val(rv).T)
	}
	for _, en := range e.ct.Ensures {
		if en.Define {
			continue
		}
		if e.ct.Trusted != "" && !strings.HasPrefix(en.Tag, "C") {
			// an assumed (trusted) contract: its untagged clauses are part of the trusted base, not obligations
			continue
		}
		if t, ok := e.evalClause(e.ct, en.Expr, env); ok {
			e.oblige("post", en.Tag, en.Tag, x.Pos(), e.guardGoal(t))
			e.obls[len(e.obls)-1].RetTerms = retTerms
		}
	}
	// refinement: the postconditions of every interface-method contract this method implements
	for _, ir := range e.w.Impls[e.fn] {
		if len(e.fn.Params) == 0 {
			continue
		}
		ienv := *env
		ienv.names = map[string]binding{}
		for k, v := range env.names {
			ienv.names[k] = v
		}
		ienv.names["recv"] = binding{e.val(e.fn.Params[0]), e.fn.Params[0].Type()}
		for i, n := range ir.Params {
			if n != "" && i+1 < len(e.fn.Params) {
				p := e.fn.Params[i+1]
				ienv.names[n] = binding{e.val(p), p.Type()}
				ienv.names[n+"0"] = binding{e.val(p), p.Type()}
			}
		}
		for _, en := range ir.Ct.Ensures {
			if en.Define {
				continue
			}
			if t, ok := e.evalClause(ir.Ct, en.Expr, &ienv); ok {
				e.oblige("post", "iface:"+ir.Key+":"+en.Tag, en.Tag, x.Pos(), e.guardGoal(t))
				e.obls[len(e.obls)-1].RetTerms = retTerms
			}
		}
	}
	for _, fr := range e.ct.Fresh {
		b, ok := env.names[fr]
		if !ok {
			e.unsupp("fresh: unknown result %s", fr)
			continue
		}
		var root string
		switch b.val.S {
		case "Ref":
			root = e.rootOf(b.val.T)
		case "Slice":
			root = e.rootOf(app("sarr", b.val.T))
		default:
			continue
		}
		goal := app(">", root, e.allocCounter(e.entryHeap))
		if b.val.S == "Slice" {
			goal = or(goal, app("=", app("sarr", b.val.T), "nil"))
		} else {
			goal = or(goal, app("=", b.val.T, "nil"))
		}
		e.oblige("fresh", fr, "", x.Pos(), e.guardGoal(goal))
	}
	e.lockExit(x)
}

func (e *Enc) allocNote(v ssa.Value, bytes string) {}

func fmtKeys(m map[string]bool) string {
	var ks []string
	for k := range m {
		ks = append(ks, k)
	}
	sort.Strings(ks)
	return strings.Join(ks, ",")
}

func predIndex(b, p *ssa.BasicBlock) int {
	for i, pp := range b.Preds {
		if pp == p {
			return i
		}
	}
	return 0
}

func dedup(xs []string) []string {
	var out []string
	for i, x := range xs {
		if i == 0 || x != xs[i-1] {
			out = append(out, x)
		}
	}
	return out
}

func (e *Enc) mapGet(h *Heap, m, k Val, valSort string) string {
	fn := "mapget_" + sanitize(k.S) + "_" + sanitize(valSort)
	if !e.declared[fn] {
		e.declared[fn] = true
		e.decls = append(e.decls, fmt.Sprintf("(declare-fun %s (Ref %s Int) %s)", fn, k.S, valSort))
	}
	e.heapSort["$s:map"] = "Int"
	return app(fn, m.T, k.T, e.heapGet(h, "$s:map", "Int"))
}

func (e *Enc) mapHas(h *Heap, m, k Val) string {
	fn := "maphas_" + sanitize(k.S)
	if !e.declared[fn] {
		e.declared[fn] = true
		e.decls = append(e.decls, fmt.Sprintf("(declare-fun %s (Ref %s Int) Bool)", fn, k.S))
	}
	e.heapSort["$s:map"] = "Int"
	return app(fn, m.T, k.T, e.heapGet(h, "$s:map", "Int"))
}

// globalMapWriteCheck: an insertion into or deletion from a map that is (a field/element of) a package-level variable.
// Outside package initialisers this is shared mutable state, exactly like a store (class `globalwrite`, property C18).
func (e *Enc) globalMapWriteCheck(m ssa.Value, pos token.Pos) {
	if e.fn.Name() == "init" && e.fn.Synthetic != "" {
		return
	}
	u, ok := m.(*ssa.UnOp)
	if !ok || u.Op != token.MUL {
		return
	}
	v := u.X
	for depth := 0; depth < 8; depth++ {
		switch x := v.(type) {
		case *ssa.Global:
			e.oblige("globalwrite", descOf(x.Name()), "", pos, not(e.reach[e.curBlock]))
			return
		case *ssa.FieldAddr:
			v = x.X
		case *ssa.IndexAddr:
			v = x.X
		default:
			return
		}
	}
}

// globalWriteCheck: a store whose address is (a field/element of) a package-level variable. Outside package initialisers
// this is shared mutable state (class `globalwrite`, property C18).
func (e *Enc) globalWriteCheck(st *ssa.Store) {
	if e.fn.Name() == "init" && e.fn.Synthetic != "" {
		return
	}
	v := st.Addr
	for depth := 0; depth < 8; depth++ {
		switch x := v.(type) {
		case *ssa.Global:
			e.oblige("globalwrite", descOf(x.Name()), "", st.Pos(), not(e.reach[e.curBlock]))
			return
		case *ssa.FieldAddr:
			v = x.X
		case *ssa.IndexAddr:
			v = x.X
		default:
			return
		}
	}
}
