package main

import (
	"fmt"
	"regexp"
	"os"
	"path/filepath"
	"strconv"
	"strings"
)

// ---------------------------------------------------------------------------------------------
// S-expressions

type Sx struct {
	Atom string
	List []*Sx
	IsList bool
}

func (s *Sx) String() string {
	if !s.IsList {
		return s.Atom
	}
	var parts []string
	for _, e := range s.List {
		parts = append(parts, e.String())
	}
	return "(" + strings.Join(parts, " ") + ")"
}

func (s *Sx) head() string {
	if s.IsList && len(s.List) > 0 && !s.List[0].IsList {
		return s.List[0].Atom
	}
	return ""
}

func parseSxAll(src string) ([]*Sx, error) {
	p := &sxParser{s: src}
	var out []*Sx
	for {
		p.skip()
		if p.i >= len(p.s) {
			return out, nil
		}
		e, err := p.parse()
		if err != nil {
			return nil, err
		}
		out = append(out, e)
	}
}

type sxParser struct {
	s string
	i int
}

func (p *sxParser) skip() {
	for p.i < len(p.s) && (p.s[p.i] == ' ' || p.s[p.i] == '\t' || p.s[p.i] == '\n') {
		p.i++
	}
}

func (p *sxParser) parse() (*Sx, error) {
	p.skip()
	if p.i >= len(p.s) {
		return nil, fmt.Errorf("unexpected end of expression")
	}
	c := p.s[p.i]
	if c == '(' {
		p.i++
		l := &Sx{IsList: true}
		for {
			p.skip()
			if p.i >= len(p.s) {
				return nil, fmt.Errorf("missing )")
			}
			if p.s[p.i] == ')' {
				p.i++
				return l, nil
			}
			e, err := p.parse()
			if err != nil {
				return nil, err
			}
			l.List = append(l.List, e)
		}
	}
	if c == ')' {
		return nil, fmt.Errorf("unexpected )")
	}
	if c == '"' {
		j := p.i + 1
		for j < len(p.s) && p.s[j] != '"' {
			j++
		}
		a := p.s[p.i : j+1]
		p.i = j + 1
		return &Sx{Atom: a}, nil
	}
	j := p.i
	for j < len(p.s) && !strings.ContainsRune(" \t\n()", rune(p.s[j])) {
		j++
	}
	a := p.s[p.i:j]
	p.i = j
	return &Sx{Atom: a}, nil
}

// ---------------------------------------------------------------------------------------------
// Contracts

type Ensures struct {
	Tag    string
	Expr   *Sx
	Define bool // abstraction definition: assumed at call sites, never an obligation (listed as an assumption)
	Check  bool // `check[tag]`: an obligation at every return that is never assumed, neither by callers nor by later clauses
}

type LoopSpec struct {
	Invariants []*Sx
	Decreases  *Sx
	Unroll     int
}

type Contract struct {
	Func       string
	File       string
	Requires   []*Sx
	Ensures    []Ensures
	Assigns    []*Sx // location expressions; nil slice + HasAssigns=false => inferred mod set
	HasAssigns bool
	Fresh      []string
	Pure       bool
	Trusted    string
	Overflow   string // "wrap" (default) or "check"
	Bytes      string // "array" (precise content) | "" (headers only)
	Loops      map[int]*LoopSpec
	Supports   []string
	Lemmas     []Ensures // assert-style facts to prove at entry (rare)
	Locks      []GuardedBy
	NoPanic    bool // callers may rely on: does not panic when requires hold (informational)
	Pattern    bool // a `funcs <regexp>` block
	Lenient    map[*Sx]bool // clauses coming from a pattern block: dropped for functions where a name does not resolve
	Opts       map[string]string
}

type GuardedBy struct {
	Field string // "FeeQuote.fees"
	Lock  string // "mu"
}

type SpecFn struct {
	Name   string
	Params []SpecParam
	Ret    string   // SMT sort
	Reads  []string // heap keys
	Def    *Sx      // optional definition body (non-recursive)
	// fold: F(args, k) = ite(k<=0, FoldUnit, FoldOp(F(args, k-1), Def[j := k-1])); the last parameter is k. The function
	// itself is uninterpreted over the heaps in Reads; one unfolding is emitted for every k it is evaluated at.
	FoldUnit, FoldOp string
	// opaque: a pure function (SMT-sorted parameters, no heap) that is left uninterpreted; its definition is used only
	// in functions whose contract says `opt reveal NAME` and in the proofs of the `fact`s stated about it
	Opaque bool
}

// Fact: a universally quantified statement about opaque spec functions. It is proved once from their definitions (an
// obligation of class `fact`) and is then available wherever those functions are used.
type Fact struct {
	Name     string
	Vars     []SpecParam
	Patterns []*Sx
	Body     *Sx
}

type SpecParam struct {
	Name string
	Sort string
}

type Axiom struct {
	Name string
	Pkg  string // directory-relative package the axiom's names resolve in
	Expr *Sx
}

func pkgOfFile(path string) string {
	d := filepath.Base(filepath.Dir(path))
	return d
}

type Contracts struct {
	SmtFuns     map[string][2]string
	SmtFunOrder []string
	IfacePatterns []*Contract
	Sigs          map[string]*Contract // function-type string -> family contract for calls through values of that type
	FieldAssume map[string]*Sx // "pkg.Type.field" -> assumed fact about every value loaded from that field (name: value)
	Axioms []Axiom
	Facts  []*Fact
	Patterns []*Contract // `//@ funcs <regexp>` blocks: clauses applied to every matching function
	merged   map[string]*Contract
	ByFunc  map[string]*Contract
	Iface   map[string]*Contract // "interpreter.Debugger.BeforeStep"
	Specs   map[string]*SpecFn
	Guarded []GuardedBy
	Sources []string
	Raw     []string // raw SMT prelude lines from `//@ smt` blocks
}

func newContracts() *Contracts {
	return &Contracts{ByFunc: map[string]*Contract{}, Iface: map[string]*Contract{}, Specs: map[string]*SpecFn{}, Sigs: map[string]*Contract{}}
}

// loadContracts reads every contracts_verif.go under repo (falling back to the mirror in /verif/contracts).
func loadContracts(repo, mirror string) (*Contracts, error) {
	cs := newContracts()
	rels := []string{"", "bscript", "bscript/interpreter", "bscript/interpreter/debug", "bscript/interpreter/scriptflag", "ord", "unlocker", "sighash"}
	for _, r := range rels {
		p := filepath.Join(repo, r, "contracts_verif.go")
		src := "repo"
		b, err := os.ReadFile(p)
		if err != nil {
			mp := filepath.Join(mirror, strings.ReplaceAll(strings.Trim(r, "/"), "/", "_")+"_contracts_verif.go")
			if r == "" {
				mp = filepath.Join(mirror, "bt_contracts_verif.go")
			}
			b, err = os.ReadFile(mp)
			if err != nil {
				continue
			}
			src = "mirror"
			p = mp
		}
		cs.Sources = append(cs.Sources, src+":"+p)
		if err := cs.parseFile(p, string(b)); err != nil {
			return nil, err
		}
	}
	// external (assumed) contracts and spec prelude live in /verif/contracts
	for _, extra := range []string{"external.contracts", "spec.contracts"} {
		p := filepath.Join(mirror, extra)
		if b, err := os.ReadFile(p); err == nil {
			cs.Sources = append(cs.Sources, "verif:"+p)
			if err := cs.parseFile(p, string(b)); err != nil {
				return nil, err
			}
		}
	}
	return cs, nil
}

func (cs *Contracts) parseFile(path, text string) error {
	var cur *Contract
	lines := strings.Split(text, "\n")
	// join continuation: a clause runs until parentheses balance
	i := 0
	for i < len(lines) {
		ln := strings.TrimSpace(lines[i])
		i++
		if !strings.HasPrefix(ln, "//@") {
			continue
		}
		body := strings.TrimSpace(strings.TrimPrefix(ln, "//@"))
		for parenDepth(body) > 0 && i < len(lines) {
			nx := strings.TrimSpace(lines[i])
			if !strings.HasPrefix(nx, "//@") {
				break
			}
			body += " " + strings.TrimSpace(strings.TrimPrefix(nx, "//@"))
			i++
		}
		if body == "" {
			continue
		}
		// strip trailing comment  " // ..."
		if k := strings.Index(body, " // "); k >= 0 && parenDepth(body[:k]) == 0 {
			body = strings.TrimSpace(body[:k])
		}
		kw, rest := splitWord(body)
		where := fmt.Sprintf("%s:%d", path, i)
		switch kw {
		case "func":
			if prev, dup := cs.ByFunc[rest]; dup {
				cur = prev // a later block for the same function adds clauses
				continue
			}
			cur = &Contract{Func: rest, File: path, Loops: map[int]*LoopSpec{}, Opts: map[string]string{}}
			cs.ByFunc[rest] = cur
			continue
		case "funcs":
			cur = &Contract{Func: rest, File: path, Loops: map[int]*LoopSpec{}, Opts: map[string]string{}, Pattern: true}
			cs.Patterns = append(cs.Patterns, cur)
			continue
		case "ifaces":
			cur = &Contract{Func: rest, File: path, Loops: map[int]*LoopSpec{}, Opts: map[string]string{}, Pattern: true}
			cs.IfacePatterns = append(cs.IfacePatterns, cur)
			continue
		case "sig":
			nm, ty := splitWord(rest)
			cur = &Contract{Func: nm, File: path, Loops: map[int]*LoopSpec{}, Opts: map[string]string{}}
			cs.Sigs[strings.Trim(ty, "\"")] = cur
			continue
		case "iface":
			cur = &Contract{Func: rest, File: path, Loops: map[int]*LoopSpec{}, Opts: map[string]string{}}
			cs.Iface[rest] = cur
			continue
		case "spec":
			sf, err := parseSpecDecl(rest)
			if err != nil {
				return fmt.Errorf("%s: %v", where, err)
			}
			cs.Specs[sf.Name] = sf
			cur = nil
			continue
		case "fact":
			// fact NAME ((x Int) ...) (pattern t1 t2 ...) body
			nm, ex := splitWord(rest)
			es, err := parseSxAll(ex)
			if err != nil || len(es) != 3 || !es[0].IsList || !es[1].IsList || len(es[1].List) < 2 || es[1].List[0].Atom != "pattern" {
				return fmt.Errorf("%s: fact needs a variable list, a (pattern ...) and a body", where)
			}
			f := &Fact{Name: nm, Body: es[2], Patterns: es[1].List[1:]}
			for _, v := range es[0].List {
				if !v.IsList || len(v.List) != 2 {
					return fmt.Errorf("%s: bad fact variable", where)
				}
				f.Vars = append(f.Vars, SpecParam{Name: v.List[0].Atom, Sort: v.List[1].String()})
			}
			cs.Facts = append(cs.Facts, f)
			cur = nil
			continue
		case "axiom":
			nm, ex := splitWord(rest)
			es, err := parseSxAll(ex)
			if err != nil || len(es) != 1 {
				return fmt.Errorf("%s: bad axiom", where)
			}
			apkg := pkgOfFile(path)
			if k := strings.Index(nm, "."); k > 0 {
				apkg = nm[:k] // axioms are named <package>.<variable>
			}
			cs.Axioms = append(cs.Axioms, Axiom{Name: nm, Pkg: apkg, Expr: es[0]})
			continue
		case "field-assume":
			nm, ex := splitWord(rest)
			es, err := parseSxAll(ex)
			if err != nil || len(es) != 1 {
				return fmt.Errorf("%s: bad field-assume", where)
			}
			if cs.FieldAssume == nil {
				cs.FieldAssume = map[string]*Sx{}
			}
			cs.FieldAssume[nm] = es[0]
			continue
		case "smt-fun":
			// smt-fun NAME (declare-fun ...) (define-fun-rec ...): the declaration is used everywhere, the definition only
			// in functions whose contract says `opt defs NAME`
			nm, r2 := splitWord(rest)
			es, err := parseSxAll(r2)
			if err != nil || len(es) != 2 {
				return fmt.Errorf("%s: smt-fun needs a declaration and a definition", where)
			}
			if cs.SmtFuns == nil {
				cs.SmtFuns = map[string][2]string{}
			}
			cs.SmtFuns[nm] = [2]string{es[0].String(), es[1].String()}
			cs.SmtFunOrder = append(cs.SmtFunOrder, nm)
			continue
		case "smt":
			cs.Raw = append(cs.Raw, rest)
			continue
		case "guarded-by":
			f, l := splitWord(rest)
			cs.Guarded = append(cs.Guarded, GuardedBy{Field: f, Lock: strings.TrimSpace(l)})
			continue
		}
		if cur == nil {
			return fmt.Errorf("%s: clause %q outside a func block", where, kw)
		}
		switch kw {
		case "lemma":
			es, err := parseSxAll(rest)
			if err != nil {
				return fmt.Errorf("%s: %v", where, err)
			}
			for _, x := range es {
				cur.Lemmas = append(cur.Lemmas, Ensures{Tag: fmt.Sprintf("l%d", len(cur.Lemmas)), Expr: x})
			}
		case "requires":
			es, err := parseSxAll(rest)
			if err != nil {
				return fmt.Errorf("%s: %v", where, err)
			}
			cur.Requires = append(cur.Requires, es...)
		case "assigns":
			es, err := parseSxAll(rest)
			if err != nil {
				return fmt.Errorf("%s: %v", where, err)
			}
			cur.HasAssigns = true
			cur.Assigns = append(cur.Assigns, es...)
		case "fresh":
			cur.Fresh = append(cur.Fresh, strings.Fields(rest)...)
		case "pure":
			cur.Pure = true
			cur.HasAssigns = true
		case "trusted":
			cur.Trusted = strings.Trim(rest, "\"")
			if cur.Trusted == "" {
				cur.Trusted = "assumed"
			}
		case "int-overflow":
			cur.Overflow = rest
		case "bytes":
			cur.Bytes = rest
		case "supports":
			cur.Supports = append(cur.Supports, strings.Fields(rest)...)
		case "opt":
			k, v := splitWord(rest)
			cur.Opts[k] = v
		case "loop":
			ns, r2 := splitWord(rest)
			n, err := strconv.Atoi(ns)
			if err != nil {
				return fmt.Errorf("%s: bad loop ordinal %q", where, ns)
			}
			ls := cur.Loops[n]
			if ls == nil {
				ls = &LoopSpec{}
				cur.Loops[n] = ls
			}
			k2, r3 := splitWord(r2)
			switch k2 {
			case "invariant":
				es, err := parseSxAll(r3)
				if err != nil {
					return fmt.Errorf("%s: %v", where, err)
				}
				ls.Invariants = append(ls.Invariants, es...)
			case "decreases":
				es, err := parseSxAll(r3)
				if err != nil || len(es) != 1 {
					return fmt.Errorf("%s: bad decreases", where)
				}
				ls.Decreases = es[0]
			case "unroll":
				ls.Unroll, _ = strconv.Atoi(strings.TrimSpace(r3))
			default:
				return fmt.Errorf("%s: unknown loop clause %q", where, k2)
			}
		default:
			if kw == "define" {
				es, err := parseSxAll(rest)
				if err != nil {
					return fmt.Errorf("%s: %v", where, err)
				}
				for _, e := range es {
					cur.Ensures = append(cur.Ensures, Ensures{Tag: fmt.Sprintf("def%d", len(cur.Ensures)), Expr: e, Define: true})
				}
				continue
			}
			if strings.HasPrefix(kw, "ensures") || strings.HasPrefix(kw, "check[") {
				tag := ""
				if k := strings.Index(kw, "["); k >= 0 {
					tag = strings.TrimSuffix(kw[k+1:], "]")
				}
				es, err := parseSxAll(rest)
				if err != nil {
					return fmt.Errorf("%s: %v", where, err)
				}
				for n, e := range es {
					t := tag
					if t == "" {
						t = fmt.Sprintf("e%d", len(cur.Ensures))
					} else if n > 0 {
						t = fmt.Sprintf("%s.%d", tag, n)
					}
					cur.Ensures = append(cur.Ensures, Ensures{Tag: t, Expr: e, Check: strings.HasPrefix(kw, "check[")})
				}
				continue
			}
			return fmt.Errorf("%s: unknown clause %q", where, kw)
		}
	}
	return nil
}

func parenDepth(s string) int {
	d := 0
	inStr := false
	for _, c := range s {
		switch {
		case c == '"':
			inStr = !inStr
		case inStr:
		case c == '(':
			d++
		case c == ')':
			d--
		}
	}
	return d
}

func splitWord(s string) (string, string) {
	s = strings.TrimSpace(s)
	for i, c := range s {
		if c == ' ' || c == '\t' {
			return s[:i], strings.TrimSpace(s[i:])
		}
	}
	return s, ""
}

// spec NAME ((p Sort) ...) Sort [reads KEY ...] [:= (body)]
func parseSpecDecl(rest string) (*SpecFn, error) {
	name, r := splitWord(rest)
	p := &sxParser{s: r}
	ps, err := p.parse()
	if err != nil || !ps.IsList {
		return nil, fmt.Errorf("spec %s: bad parameter list", name)
	}
	sf := &SpecFn{Name: name}
	for _, e := range ps.List {
		if !e.IsList || len(e.List) != 2 {
			return nil, fmt.Errorf("spec %s: bad parameter", name)
		}
		sf.Params = append(sf.Params, SpecParam{Name: e.List[0].Atom, Sort: e.List[1].String()})
	}
	rs, err := p.parse()
	if err != nil {
		return nil, fmt.Errorf("spec %s: missing result sort", name)
	}
	sf.Ret = rs.String()
	tail := strings.TrimSpace(p.s[p.i:])
	if k := strings.Index(tail, ":="); k >= 0 {
		body := strings.TrimSpace(tail[k+2:])
		es, err := parseSxAll(body)
		if err != nil || len(es) != 1 {
			return nil, fmt.Errorf("spec %s: bad body", name)
		}
		sf.Def = es[0]
		tail = strings.TrimSpace(tail[:k])
	}
	if strings.HasSuffix(tail, " opaque") || tail == "opaque" {
		sf.Opaque = true
		tail = strings.TrimSpace(strings.TrimSuffix(tail, "opaque"))
	}
	if k := strings.Index(tail, " fold "); k >= 0 {
		f := strings.Fields(tail[k+6:])
		if len(f) != 2 || sf.Def == nil {
			return nil, fmt.Errorf("spec %s: fold needs a unit, an operator and an element body", name)
		}
		sf.FoldUnit, sf.FoldOp = f[0], f[1]
		tail = strings.TrimSpace(tail[:k])
	}
	if strings.HasPrefix(tail, "reads") {
		sf.Reads = strings.Fields(strings.TrimPrefix(tail, "reads"))
	}
	return sf, nil
}

// For returns the effective contract of a function: its own block merged with every matching pattern block.
// Pattern clauses are lenient: a clause that mentions a name the function does not have is dropped for that function.
func (cs *Contracts) For(name string) *Contract {
	if cs.merged == nil {
		cs.merged = map[string]*Contract{}
	}
	if m, ok := cs.merged[name]; ok {
		return m
	}
	own := cs.ByFunc[name]
	var pats []*Contract
	for _, p := range cs.Patterns {
		if regexp.MustCompile(p.Func).MatchString(name) {
			pats = append(pats, p)
		}
	}
	if len(pats) == 0 {
		cs.merged[name] = own
		return own
	}
	m := &Contract{Func: name, Loops: map[int]*LoopSpec{}, Opts: map[string]string{}, Lenient: map[*Sx]bool{}}
	for _, p := range pats {
		if own != nil && own.Opts["nopattern"] != "" {
			break
		}
		for _, r := range p.Requires {
			m.Requires = append(m.Requires, r)
			m.Lenient[r] = true
		}
		for _, en := range p.Ensures {
			m.Ensures = append(m.Ensures, en)
			m.Lenient[en.Expr] = true
		}
		for k, v := range p.Opts {
			m.Opts[k] = v
		}
		if p.Overflow != "" {
			m.Overflow = p.Overflow
		}
		if p.Bytes != "" {
			m.Bytes = p.Bytes
		}
	}
	if own != nil {
		m.File = own.File
		m.Requires = append(m.Requires, own.Requires...)
		m.Ensures = append(m.Ensures, own.Ensures...)
		m.Assigns, m.HasAssigns, m.Fresh, m.Pure, m.Trusted = own.Assigns, own.HasAssigns, own.Fresh, own.Pure, own.Trusted
		if own.Overflow != "" {
			m.Overflow = own.Overflow
		}
		if own.Bytes != "" {
			m.Bytes = own.Bytes
		}
		m.Loops = own.Loops
		m.Lemmas = own.Lemmas
		for k, v := range own.Opts {
			m.Opts[k] = v
		}
	}
	cs.merged[name] = m
	return m
}

// IfaceFor: contract of an interface method ("pkg.Iface.Method"), exact block or first matching `ifaces` pattern.
func (cs *Contracts) IfaceFor(key string) *Contract {
	if c := cs.Iface[key]; c != nil {
		return c
	}
	for _, p := range cs.IfacePatterns {
		if regexp.MustCompile(p.Func).MatchString(key) {
			return p
		}
	}
	return nil
}
