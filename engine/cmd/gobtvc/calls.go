package main

import (
	"fmt"
	"go/token"
	"go/types"
	"sort"
	"strings"

	"golang.org/x/tools/go/ssa"
)

func (e *Enc) setResult(res *ssa.Call, vals []Val) {
	if res == nil {
		return
	}
	if e.token {
		rs := res.Call.Signature().Results()
		for i, v := range vals {
			if i < rs.Len() {
				e.byteSliceEnters(e.cur, v, rs.At(i).Type(), e.reach[e.curBlock])
			}
		}
	}
	n := res.Call.Signature().Results().Len()
	switch {
	case n == 0:
	case n == 1 && len(vals) == 1:
		e.vals[res] = vals[0]
	default:
		e.tuples[res] = vals
	}
}

func (e *Enc) freshResults(sig *types.Signature, h *Heap) []Val {
	var out []Val
	for i := 0; i < sig.Results().Len(); i++ {
		t := sig.Results().At(i).Type()
		s := e.sortOf(t)
		v := Val{e.fresh("ret", s), s}
		e.assert(e.typeFacts(v.T, t))
		out = append(out, v)
	}
	return out
}

func (e *Enc) call(ins ssa.Instruction, c *ssa.CallCommon, res *ssa.Call) {
	pos := ins.Pos()
	var args []Val
	var argT []types.Type
	if c.IsInvoke() {
		rv := e.val(c.Value)
		e.oblige("nil", descOf(e.exprText(c.Value, ins))+"."+c.Method.Name(), "", pos, e.guardGoal(app("distinct", rv.T, "nil")))
		args = append(args, rv)
		argT = append(argT, c.Value.Type())
	}
	for _, a := range c.Args {
		args = append(args, e.val(a))
		argT = append(argT, a.Type())
	}
	sig := c.Signature()
	e.sharedStateChecks(ins, c)

	if b, ok := c.Value.(*ssa.Builtin); ok && !c.IsInvoke() {
		e.builtin(ins, b, c, res, args)
		return
	}
	if c.IsInvoke() {
		key := ifaceKey(c)
		if ct := e.cs.IfaceFor(key); ct != nil {
			var params []string
			params = append(params, "recv")
			ms := c.Method.Type().(*types.Signature)
			for i := 0; i < ms.Params().Len(); i++ {
				params = append(params, ms.Params().At(i).Name())
			}
			if pn := ct.Opts["params"]; pn != "" {
				// unnamed interface parameters get names from the contract: `opt params state data`
				for i, n := range strings.Fields(pn) {
					if i+1 < len(params) {
						params[i+1] = n
					}
				}
			}
			wr := e.w.invokeWrites(c)
			if ct.Pure {
				wr = map[string]bool{}
			}
			e.applyContract(ins, ct, nil, sig, params, args, argT, res, "iface "+key, wr)
			return
		}
		e.defaultCall(ins, sig, res, e.w.invokeWrites(c), "invoke "+key)
		return
	}
	callee := c.StaticCallee()
	if callee == nil && e.ct != nil && e.ct.Opts["fn-dispatch"] != "" && !c.IsInvoke() {
		e.dispatchCall(ins, c, res, args, argT)
		return
	}
	if callee == nil {
		if !e.funcValueCall(ins, c, res, args, argT) {
			fv := e.val(c.Value)
			e.oblige("nil", "call:"+descOf(e.exprText(c.Value, ins)), "", pos, e.guardGoal(app("distinct", fv.T, "nil")))
			e.defaultCall(ins, sig, res, e.w.funcValueWrites(c), "func value "+e.exprText(c.Value, ins))
		}
		return
	}
	var closureNames []string
	if mc, ok := c.Value.(*ssa.MakeClosure); ok {
		// closure call: the captured variables are passed implicitly; they are visible to the contract by name
		if fn, ok := mc.Fn.(*ssa.Function); ok {
			for i, fv := range fn.FreeVars {
				if i < len(mc.Bindings) {
					closureNames = append(closureNames, fv.Name())
					args = append(args, e.val(mc.Bindings[i]))
					argT = append(argT, mc.Bindings[i].Type())
				}
			}
		}
	}
	name := e.w.Names[callee]
	if name == "" {
		name = funcName(callee)
	}
	if _, isLib := e.w.ModSet[callee]; isLib {
		if e.frameAll() {
			for k, wc := range e.w.WE[callee] {
				if k == "T:uint8" || ghostPlain(k) {
					continue
				}
				if wc.other {
					e.oblige("framewrite", "callee-writes:"+shortCallee(name)+":"+k, "", pos, e.guardGoal("false"))
				}
				for i := range wc.params {
					if i < len(args) {
						var root string
						switch args[i].S {
						case "Slice":
							root = e.rootOf(app("sarr", args[i].T))
						case "Ref":
							root = e.rootOf(args[i].T)
						default:
							continue
						}
						e.oblige("framewrite", fmt.Sprintf("callee-writes:%s:arg%d:%s", shortCallee(name), i, k), "", pos, e.guardGoal(app(">", root, e.allocCounter(e.entryHeap))))
					}
				}
			}
		}
		for _, ip := range e.implicitPre(callee) {
			what := "recv:" + descOf(e.exprText(c.Args[ip.param], ins))
			if ip.param > 0 || callee.Signature.Recv() == nil {
				what = "arg:" + descOf(e.exprText(c.Args[ip.param], ins))
			}
			cls := "nil"
			if ip.kind == "lockfree" {
				what, cls = "callee-acquires:"+shortCallee(name), "lock"
				e.usedLock = true
			}
			e.oblige(cls, what, "", pos, e.guardGoal(e.implTerm(ip, args, e.cur)))
		}
		if ct := e.cs.For(name); ct != nil {
			var params []string
			for _, p := range callee.Params {
				params = append(params, p.Name())
			}
			params = append(params, closureNames...)
			e.applyContract(ins, ct, callee, sig, params, args, argT, res, name, e.w.ModSet[callee])
			return
		}
		e.defaultCall(ins, sig, res, e.w.ModSet[callee], "")
		return
	}
	// external
	ename := callee.String()
	if e.extCall(ins, ename, callee, sig, res, args, argT) {
		return
	}
	if ct := e.cs.For("ext:"+ename); ct != nil {
		var params []string
		if sig.Recv() != nil {
			params = append(params, "recv")
		}
		for i := 0; i < sig.Params().Len(); i++ {
			n := sig.Params().At(i).Name()
			if n == "" || n == "_" {
				n = fmt.Sprintf("a%d", i)
			}
			params = append(params, n)
		}
		e.applyContract(ins, ct, callee, sig, params, args, argT, res, "ext:"+ename, e.w.externalWrites(callee))
		return
	}
	e.trustedUsed["external "+ename+": assumed total, result unconstrained"] = true
	e.defaultCall(ins, sig, res, e.w.externalWrites(callee), "")
}

func ifaceKey(c *ssa.CallCommon) string {
	t := c.Value.Type()
	return qualName(t) + "." + c.Method.Name()
}

// havocCallWrites forgets what a library callee may write. Per heap key, the syntactic frame analysis (freshonly.go)
// says whether the callee can write cells that existed before the call and, if so, rooted at which arguments; every other
// pre-existing cell keeps its value.
func (e *Enc) havocCallWritesAt(h *Heap, writes map[string]bool, callee *ssa.Function, args []Val, apre string) {
	if callee == nil || writes["*"] {
		e.havocSet(h, writes)
		return
	}
	we, isLib := e.w.WE[callee]
	if !isLib {
		e.havocSet(h, writes)
		return
	}
	var keys []string
	for k := range writes {
		keys = append(keys, k)
	}
	sort.Strings(keys)
	for _, k := range keys {
		wc := we[k]
		if ghostPlain(k) || (wc != nil && wc.other) {
			e.havocKey(h, k)
			continue
		}
		var except []string
		bad := false
		if wc != nil {
			for i := range wc.params {
				if i >= len(args) {
					bad = true
					break
				}
				switch args[i].S {
				case "Slice":
					except = append(except, e.rootOf(app("sarr", args[i].T)))
				case "Ref":
					except = append(except, e.rootOf(args[i].T))
				default:
					bad = true
				}
			}
		}
		if bad {
			e.havocKey(h, k)
			continue
		}
		if _, known := e.heapSort[k]; !known {
			if srt, ok := e.w.keySort(e, k); ok {
				e.heapGet(h, k, srt)
			}
		}
		sort.Strings(except)
		if len(except) == 0 && valueSort(e.heapSort[k]) && e.token {
			// The callee writes cells of this heap only in memory it allocates itself. Nothing has been said so far about
			// cells that are not allocated yet, so the heap term can stay: the values the callee leaves in its own
			// allocations are the (so far unconstrained) values of the term at those addresses. Only for heaps whose
			// cells hold no references: facts about loaded references (watermarks, closedness) speak about all cells.
			continue
		}
		e.havocKeyFramed(h, k, apre, except)
	}
}

// valueSort: heap cells of this sort hold no references.
func valueSort(s string) bool {
	switch s {
	case "Int", "Bool", "Real", "B", "Str":
		return true
	}
	return false
}

func (e *Enc) defaultCall(ins ssa.Instruction, sig *types.Signature, res *ssa.Call, writes map[string]bool, what string) {
	h := e.cur
	var callee *ssa.Function
	var args []Val
	if ci, ok := ins.(ssa.CallInstruction); ok {
		callee = ci.Common().StaticCallee()
		if callee != nil && !ci.Common().IsInvoke() {
			for _, a := range ci.Common().Args {
				args = append(args, e.val(a))
			}
		}
	}
	apre := e.allocCounter(h)
	e.havocKey(h, "$A") // first: heaps forgotten below may hold references allocated by the callee
	e.havocCallWritesAt(h, writes, callee, args, apre)
	rs := e.freshResults(sig, h)
	for _, r := range rs {
		e.assert(e.refOld(r, h))
	}
	e.setResult(res, rs)
}

func (e *Enc) applyContract(ins ssa.Instruction, ct *Contract, callee *ssa.Function, sig *types.Signature, params []string, args []Val, argT []types.Type, res *ssa.Call, name string, inferred map[string]bool) {
	h := e.cur
	pre := h.clone()
	if ct.Trusted != "" {
		e.trustedUsed["contract of "+name+" is assumed: "+ct.Trusted] = true
	}
	envPre := e.callEnv(callee, sig, params, args, argT, pre, pre, nil)
	envPre.owner = "call to " + name
	for i, r := range ct.Requires {
		if t, ok := e.evalClause(ct, r, envPre); ok {
			e.oblige("pre", fmt.Sprintf("%s.%d", shortCallee(name), i), "", ins.Pos(), e.guardGoal(t))
		}
	}
	// frame
	if ct.HasAssigns {
		for _, loc := range ct.Assigns {
			e.havocLoc(h, loc, envPre, ins)
		}
	} else {
		apre := e.allocCounter(h)
		e.havocKey(h, "$A")
		e.havocCallWritesAt(h, inferred, callee, args, apre)
	}
	e.havocKey(h, "$A")
	for _, av := range e.asgVals {
		e.assert(e.refOld(av, h)) // whatever the callee stored in an assigned field exists when it returns
	}
	e.asgVals = nil
	rs := e.freshResults(sig, h)
	for _, r := range rs {
		e.assert(e.refOld(r, h))
	}
	envPost := e.callEnv(callee, sig, params, args, argT, pre, h, rs)
	envPost.owner = "call to " + name
	for _, en := range ct.Ensures {
		if en.Check {
			continue // an obligation of the callee only
		}
		if t, ok := e.evalClause(ct, en.Expr, envPost); ok {
			e.assert(implies(e.reach[e.curBlock], t))
			if en.Define {
				e.trustedUsed["abstraction definition on "+name+": "+en.Expr.String()] = true
			}
		}
	}
	for _, fr := range ct.Fresh {
		if b, ok := envPost.names[fr]; ok {
			a := e.allocCounter(pre)
			switch b.val.S {
			case "Ref":
				e.assert(implies(e.reach[e.curBlock], or(app("=", b.val.T, "nil"), app(">", e.rootOf(b.val.T), a))))
			case "Slice":
				e.assert(implies(e.reach[e.curBlock], or(app("=", app("sarr", b.val.T), "nil"), app(">", e.rootOf(app("sarr", b.val.T)), a))))
			}
		}
	}
	e.setResult(res, rs)
}

func shortCallee(n string) string {
	if k := strings.LastIndex(n, "/"); k >= 0 {
		n = n[k+1:]
	}
	return sanitizeKeep(n)
}

func sanitizeKeep(s string) string {
	r := strings.NewReplacer(" ", "", "#", "_")
	return r.Replace(s)
}

// havocLoc forgets the location named by an assigns clause.
func (e *Enc) havocLoc(h *Heap, loc *Sx, env *evalEnv, ins ssa.Instruction) {
	switch loc.head() {
	case ".":
		base := e.eval(&Sx{IsList: true, List: append([]*Sx{{Atom: "."}}, loc.List[1:len(loc.List)-1]...)}, env)
		if len(loc.List) == 3 {
			base = e.eval(loc.List[1], env)
		}
		st, name := structOf(base.t)
		fld := loc.List[len(loc.List)-1].Atom
		if st == nil {
			e.unsupp("assigns: %s is not a struct pointer", loc)
			e.havocAll(h)
			return
		}
		for i := 0; i < st.NumFields(); i++ {
			if st.Field(i).Name() == fld {
				ft := st.Field(i).Type()
				switch under(ft).(type) {
				case *types.Struct, *types.Array:
					for _, k := range e.w.keysOfField(name, st, i) {
						e.havocKey(h, k)
					}
				default:
					key := e.w.fieldKey(name, st, i)
					srt := e.sortOf(ft)
					v := e.fresh("asg", srt)
					e.assert(e.typeFacts(v, ft))
					e.asgVals = append(e.asgVals, Val{v, srt}) // allocated by the end of the call: asserted once the counter has advanced
					h.m[key] = app("store", e.heapGet(h, key, srt), app("emb", base.v.T, ilit(int64(i))), v)
				}
				return
			}
		}
		e.unsupp("assigns: no field %s", fld)
	case "elems":
		x := e.autoDeref(e.eval(loc.List[1], env), env)
		st, ok := under(x.t).(*types.Slice)
		if !ok {
			e.unsupp("assigns elems: not a slice: %s", loc)
			e.havocAll(h)
			return
		}
		for _, k := range e.w.keysOfType(st.Elem()) {
			if e.token && k == "T:uint8" {
				// byte cells of this one array (and the contents of slices over it); everything allocated so far and
				// rooted elsewhere keeps its bytes and its byte-string content
				e.heapGet(h, "T:uint8", "Int")
				e.havocKeyFramed(h, k, e.allocCounter(h), []string{e.rootOf(app("sarr", x.v.T))})
				continue
			}
			e.havocKeyExcept(h, k, app("sarr", x.v.T))
		}
	case "cell":
		// (cell p): the one memory cell p points to
		x := e.eval(loc.List[1], env)
		pt, ok := under(x.t).(*types.Pointer)
		if !ok {
			e.unsupp("assigns cell: not a pointer: %s", loc)
			e.havocAll(h)
			return
		}
		switch under(pt.Elem()).(type) {
		case *types.Struct, *types.Array:
			for _, k := range e.w.keysOfType(pt.Elem()) {
				e.havocKey(h, k)
			}
		default:
			key := cellKey(pt.Elem())
			srt := e.sortOf(pt.Elem())
			v := e.fresh("asg", srt)
			e.assert(e.typeFacts(v, pt.Elem()))
			h.m[key] = app("store", e.heapGet(h, key, srt), x.v.T, v)
		}
	case "bigcell":
		x := e.eval(loc.List[1], env)
		v := e.fresh("asgbig", "Int")
		h.m["$big"] = app("store", e.heapGet(h, "$big", "Int"), x.v.T, v)
	case "key":
		e.havocKey(h, strings.Trim(loc.List[1].Atom, "\""))
	case "deref":
		x := e.eval(loc.List[1], env)
		pt, ok := under(x.t).(*types.Pointer)
		if !ok {
			e.havocAll(h)
			return
		}
		for _, k := range e.w.keysOfType(pt.Elem()) {
			e.havocKey(h, k)
		}
	default:
		if !loc.IsList && loc.Atom == "*" {
			e.havocAll(h)
			return
		}
		e.unsupp("assigns: unsupported location %s", loc)
		e.havocAll(h)
	}
}

// havocKeyExcept: only cells whose address is an element of array arr may change.
func (e *Enc) havocKeyExcept(h *Heap, key, arr string) {
	srt, ok := e.heapSort[key]
	if !ok {
		e.pendingHavoc(h, key)
		return
	}
	old := e.heapGet(h, key, srt)
	n := e.fresh("H_"+sanitize(key), arrSort(key, srt))
	e.assert(fmt.Sprintf("(forall ((r Ref)) (! (=> (not (and ((_ is elem) r) (= (ebase r) %s))) (= (select %s r) (select %s r))) :pattern ((select %s r))))", arr, n, old, n))
	h.m[key] = n
}

// funcValueCall: calls through a function value whose type has a family contract (`//@ sig`): the caller proves the
// family's preconditions (and that every pointer argument is non-nil); every library function used as a value of that
// type is checked to require no more than the family grants (sigCheck).
// dispatchCall: a call through a function value in a function whose contract lists the possible targets
// (`opt fn-dispatch <name> ...`, bound methods as <method>$bound). It is proved that the value is one of them (class
// `dispatch`); each target's contract is then applied under the condition that the value is that target. Targets must be
// `pure` (they write nothing that existed before), so the heap effect of the call is allocation only.
func (e *Enc) dispatchCall(ins ssa.Instruction, c *ssa.CallCommon, res *ssa.Call, args []Val, argT []types.Type) {
	h := e.cur
	pos := ins.Pos()
	fv := e.val(c.Value)
	sig := c.Signature()
	e.oblige("nil", "call:"+descOf(e.exprText(c.Value, ins)), "", pos, e.guardGoal(app("distinct", fv.T, "nil")))
	type target struct {
		fn    *ssa.Function
		ct    *Contract
		bound bool
		guard string
		name  string
	}
	var ts []target
	var alts []string
	for _, nm := range strings.Fields(e.ct.Opts["fn-dispatch"]) {
		bound := strings.HasSuffix(nm, "$bound")
		base := strings.TrimSuffix(nm, "$bound")
		fn := e.w.Funcs[base]
		if fn == nil {
			e.unsupp("fn-dispatch: unknown function %s", nm)
			continue
		}
		ct := e.cs.For(base)
		if ct == nil || !(ct.Pure || ct.Opts["frame-all"] != "") {
			e.unsupp("fn-dispatch: target %s needs a `pure` (or frame-all) contract", nm)
			continue
		}
		g := app("=", app("fnid", fv.T), ilit(globalID("func:"+nm)))
		ts = append(ts, target{fn, ct, bound, g, nm})
		alts = append(alts, g)
	}
	e.oblige("dispatch", descOf(e.exprText(c.Value, ins)), "", pos, e.guardGoal(or(alts...)))
	pre := h.clone()
	apre := e.allocCounter(h)
	for _, t := range ts {
		targs, targT := args, argT
		if t.bound {
			targs = append([]Val{{app("fnrecv", fv.T), "Ref"}}, args...)
			targT = append([]types.Type{t.fn.Signature.Recv().Type()}, argT...)
			e.oblige("nil", "recv:"+t.name, "", pos, e.guardGoal(implies(t.guard, app("distinct", app("fnrecv", fv.T), "nil"))))
		}
		var params []string
		for _, p := range t.fn.Params {
			params = append(params, p.Name())
		}
		envPre := e.callEnv(t.fn, t.fn.Signature, params, targs, targT, pre, pre, nil)
		envPre.owner = "call to " + t.name
		for i, r := range t.ct.Requires {
			if tt, ok := e.evalClause(t.ct, r, envPre); ok {
				e.oblige("pre", fmt.Sprintf("%s.%d", shortCallee(t.name), i), "", pos, e.guardGoal(implies(t.guard, tt)))
			}
		}
	}
	e.havocKey(h, "$A")
	rs := e.freshResults(sig, h)
	for _, r := range rs {
		e.assert(e.refOld(r, h))
	}
	for _, t := range ts {
		targs, targT := args, argT
		if t.bound {
			targs = append([]Val{{app("fnrecv", fv.T), "Ref"}}, args...)
			targT = append([]types.Type{t.fn.Signature.Recv().Type()}, argT...)
		}
		var params []string
		for _, p := range t.fn.Params {
			params = append(params, p.Name())
		}
		envPost := e.callEnv(t.fn, t.fn.Signature, params, targs, targT, pre, h, rs)
		envPost.owner = "call to " + t.name
		for _, en := range t.ct.Ensures {
			if en.Check {
				continue
			}
			if tt, ok := e.evalClause(t.ct, en.Expr, envPost); ok {
				e.assert(implies(and(e.reach[e.curBlock], t.guard), tt))
			}
		}
		for _, fr := range t.ct.Fresh {
			if b, ok := envPost.names[fr]; ok {
				switch b.val.S {
				case "Ref":
					e.assert(implies(and(e.reach[e.curBlock], t.guard), or(app("=", b.val.T, "nil"), app(">", e.rootOf(b.val.T), apre))))
				case "Slice":
					e.assert(implies(and(e.reach[e.curBlock], t.guard), or(app("=", app("sarr", b.val.T), "nil"), app(">", e.rootOf(app("sarr", b.val.T)), apre))))
				}
			}
		}
		if t.ct.Trusted != "" {
			e.trustedUsed["contract of "+t.name+" is assumed: "+t.ct.Trusted] = true
		}
	}
	for i, r := range rs {
		e.byteSliceEnters(h, r, sig.Results().At(i).Type(), e.reach[e.curBlock])
	}
	e.setResult(res, rs)
}

func (e *Enc) funcValueCall(ins ssa.Instruction, c *ssa.CallCommon, res *ssa.Call, args []Val, argT []types.Type) bool {
	ct := e.cs.Sigs[types.TypeString(c.Value.Type().Underlying(), shortQual)]
	if ct == nil {
		return false
	}
	sig := c.Signature()
	fv := e.val(c.Value)
	e.oblige("nil", "call:"+descOf(e.exprText(c.Value, ins)), "", ins.Pos(), e.guardGoal(app("distinct", fv.T, "nil")))
	var params []string
	for i := 0; i < sig.Params().Len(); i++ {
		n := sig.Params().At(i).Name()
		if n == "" || n == "_" {
			n = fmt.Sprintf("a%d", i)
		}
		params = append(params, n)
		if _, isPtr := under(sig.Params().At(i).Type()).(*types.Pointer); isPtr && i < len(args) {
			e.oblige("nil", fmt.Sprintf("arg%d:%s", i, descOf(e.exprText(c.Args[i], ins))), "", ins.Pos(), e.guardGoal(app("distinct", args[i].T, "nil")))
		}
	}
	if pn := ct.Opts["params"]; pn != "" {
		params = strings.Fields(pn)
	}
	wr := map[string]bool{"*": true}
	if ct.Pure || sigWritesNoMemory(ct) {
		wr = map[string]bool{}
	}
	if ts, ok := e.w.sigTargetsOf(c); ok {
		// closed-world function type: effects are the union over every library function used as such a value
		h := e.cur
		pre := h.clone()
		envPre := e.callEnv(nil, sig, params, args, argT, pre, pre, nil)
		envPre.owner = "call through " + ct.Func
		for i, r := range ct.Requires {
			if t, ok := e.evalClause(ct, r, envPre); ok {
				e.oblige("pre", fmt.Sprintf("%s.%d", shortCallee(ct.Func), i), "", ins.Pos(), e.guardGoal(t))
			}
		}
		apre := e.allocCounter(h)
		e.havocKey(h, "$A")
		union := map[string]bool{}
		for _, t := range ts {
			for k := range e.w.ModSet[t] {
				union[k] = true
			}
		}
		e.havocUnionAt(h, union, ts, args, apre)
		rs := e.freshResults(sig, h)
		for _, r := range rs {
			e.assert(e.refOld(r, h))
		}
		envPost := e.callEnv(nil, sig, params, args, argT, pre, h, rs)
		for _, en := range ct.Ensures {
			if en.Check {
				continue
			}
			if t, ok := e.evalClause(ct, en.Expr, envPost); ok {
				e.assert(implies(e.reach[e.curBlock], t))
			}
		}
		e.setResult(res, rs)
		e.trustedUsed["indirect calls through "+ct.Func+" values: closed-world function type (mentions an unexported library type); effects are the union over the library functions used as such values, each checked against the family contract"] = true
		return true
	}
	e.trustedUsed["indirect calls through "+ct.Func+" values are checked against the family contract; library functions used as such values are checked to require no more (sigcheck)"] = true
	e.applyContract(ins, ct, nil, sig, params, args, argT, res, "sig "+ct.Func, wr)
	return true
}

func shortQual(p *types.Package) string { return shortPkg(p.Path()) }

// ---------------------------------------------------------------------------------------------
// builtins

func (e *Enc) builtin(ins ssa.Instruction, b *ssa.Builtin, c *ssa.CallCommon, res *ssa.Call, args []Val) {
	h := e.cur
	set := func(t string) {
		if res != nil {
			e.define(res, t)
		}
	}
	switch b.Name() {
	case "len":
		switch args[0].S {
		case "Slice":
			set(app("slen", args[0].T))
		case "Str":
			set(app("strlen", args[0].T))
		case "Ref":
			if res != nil {
				r := e.define(res, app("maplen", args[0].T))
				e.assert(app(">=", r.T, "0"))
			}
		default:
			if at, ok := under(c.Args[0].Type()).(*types.Array); ok {
				set(ilit(at.Len()))
			} else if pt, ok := under(c.Args[0].Type()).(*types.Pointer); ok {
				set(ilit(under(pt.Elem()).(*types.Array).Len()))
			} else {
				e.unsupp("len of %s", c.Args[0].Type())
			}
		}
	case "cap":
		if args[0].S == "Slice" {
			set(app("scap", args[0].T))
		} else if res != nil {
			e.havocVal(res)
		}
	case "append":
		e.appendCall(ins, c, res, args)
	case "copy":
		dst, src := args[0], args[1]
		var n string
		if src.S == "Str" {
			n = fmt.Sprintf("(ite (<= (slen %s) (strlen %s)) (slen %s) (strlen %s))", dst.T, src.T, dst.T, src.T)
		} else {
			n = fmt.Sprintf("(ite (<= (slen %s) (slen %s)) (slen %s) (slen %s))", dst.T, src.T, dst.T, src.T)
		}
		st := under(c.Args[0].Type()).(*types.Slice)
		e.byteWriteCheck(ins, c.Args[0], dst, "copy", app(">", n, "0"))
		if e.token && isByteSlice(c.Args[0].Type()) {
			var sb string
			if src.S == "Str" {
				sb = app("bstr", src.T)
			} else {
				sb = e.tokBytes(h, src.T)
			}
			db := e.tokBytes(h, dst.T)
			nn := e.fresh("copyn", "Int")
			e.assert(app("=", nn, n))
			defer func() {
				e.setBytes(e.cur, dst.T, app("bcat", app("bsub", sb, "0", nn), app("bsub", db, nn, app("slen", dst.T))))
			}()
		}
		if e.precise && src.S == "Slice" {
			e.copyCells(h, st.Elem(), dst, "0", src, "0", n)
		} else if e.token && isByteSlice(c.Args[0].Type()) {
			e.heapGet(h, "T:uint8", "Int")
			e.noCouple = true
			e.havocKeyFramed(h, "T:uint8", e.allocCounter(h), []string{e.rootOf(app("sarr", dst.T))})
			e.noCouple = false
			// copy into (a slice of) a small local array, e.g. `copy(ckSum[:], h[:4])`: the cells are the copied bytes
			if sl, ok := c.Args[0].(*ssa.Slice); ok {
				if pt, ok := under(sl.X.Type()).(*types.Pointer); ok {
					if at, ok := under(pt.Elem()).(*types.Array); ok && at.Len() <= 16 && src.S == "Slice" {
						sb := e.tokBytes(h, src.T)
						hp := e.heapGet(h, "T:uint8", "Int")
						for i := int64(0); i < at.Len(); i++ {
							cell := app("select", hp, app("elem", app("sarr", dst.T), app("+", app("soff", dst.T), ilit(i))))
							e.assert(implies(and(e.reach[e.curBlock], app("<", ilit(i), n)), app("=", cell, app("bat", sb, ilit(i)))))
						}
					}
				}
			}
		} else {
			for _, k := range e.w.keysOfType(st.Elem()) {
				e.havocKey(h, k)
			}
		}
		set(n)
	case "delete":
		// removes an entry: the map contents change (conservatively: every map fact is forgotten)
		e.globalMapWriteCheck(c.Args[0], ins.Pos())
		e.lockCheckMap(c.Args[0], true, ins.Pos())
		e.heapSort["$s:map"] = "Int"
		h.m["$s:map"] = e.fresh("mapver", "Int")
	case "print", "println":
	case "min", "max":
		op := "<="
		if b.Name() == "max" {
			op = ">="
		}
		t := args[0].T
		for _, a := range args[1:] {
			t = fmt.Sprintf("(ite (%s %s %s) %s %s)", op, t, a.T, t, a.T)
		}
		set(t)
	case "ssa:wrapnilchk":
		e.oblige("nil", "wrapnilchk", "", ins.Pos(), e.guardGoal(app("distinct", args[0].T, "nil")))
		set(args[0].T)
	case "recover":
		if res != nil {
			e.havocVal(res)
		}
	case "close":
	default:
		e.unsupp("builtin %s", b.Name())
		if res != nil {
			e.havocVal(res)
		}
	}
}

// copyCells: heap' = heap with n cells of dst (from dOff) replaced by cells of src (from sOff); memmove semantics.
func (e *Enc) copyCells(h *Heap, et types.Type, dst Val, dOff string, src Val, sOff string, n string) {
	switch under(et).(type) {
	case *types.Struct, *types.Array:
		for _, k := range e.w.keysOfType(et) {
			e.havocKey(h, k)
		}
		return
	}
	key := cellKey(et)
	srt := e.sortOf(et)
	old := e.heapGet(h, key, srt)
	nh := e.fresh("H_"+sanitize(key), "(Array Ref "+srt+")")
	db := app("+", app("soff", dst.T), dOff)
	sb := app("+", app("soff", src.T), sOff)
	e.assert(fmt.Sprintf("(forall ((r Ref)) (! (= (select %s r) (ite (and ((_ is elem) r) (= (ebase r) (sarr %s)) (<= %s (eidx r)) (< (eidx r) (+ %s %s))) (select %s (elem (sarr %s) (+ %s (- (eidx r) %s)))) (select %s r))) :pattern ((select %s r))))",
		nh, dst.T, db, db, n, old, src.T, sb, db, old, nh))
	h.m[key] = nh
}

func (e *Enc) appendCall(ins ssa.Instruction, c *ssa.CallCommon, res *ssa.Call, args []Val) {
	h := e.cur
	s, t := args[0], args[1]
	st := under(c.Args[0].Type()).(*types.Slice)
	var tl string
	if t.S == "Str" {
		tl = app("strlen", t.T)
	} else {
		tl = app("slen", t.T)
	}
	n := e.fresh("applen", "Int")
	e.assert(app("=", n, app("+", app("slen", s.T), tl)))
	inplace := e.fresh("inplace", "Bool")
	e.assert(app("=", inplace, app("<=", n, app("scap", s.T))))
	// an in-place append writes the spare capacity of s's backing array
	e.byteWriteCheck(ins, c.Args[0], s, "append", and(inplace, app(">", tl, "0")))
	pre := h.clone()
	o := e.newObj(h)
	ncap := e.fresh("cap", "Int")
	e.assert(and(app(">=", ncap, n), app("<=", ncap, "1099511627776")))
	r := e.fresh("app", "Slice")
	e.assert(app("=", r, app("ite", inplace,
		app("mkslice", app("sarr", s.T), app("soff", s.T), n, app("scap", s.T)),
		app("mkslice", o, "0", n, ncap))))
	e.assert(app("<=", n, "1099511627776")) // assumed: no slice grows past 2^40 elements
	if res != nil {
		e.define(res, r)
	}
	rv := Val{r, "Slice"}
	if e.token && isByteSlice(c.Args[0].Type()) {
		var tb string
		if t.S == "Str" {
			tb = app("bstr", t.T)
		} else {
			tb = e.tokBytes(pre, t.T)
		}
		defer func() { e.setBytes(e.cur, rv.T, app("bcat", e.tokBytes(pre, s.T), tb)) }()
	}
	if (e.precise || e.token && !isByteSlice(c.Args[0].Type())) && t.S == "Slice" {
		switch under(st.Elem()).(type) {
		case *types.Struct, *types.Array:
			for _, k := range e.w.keysOfType(st.Elem()) {
				e.havocKey(h, k)
			}
		default:
			key := cellKey(st.Elem())
			srt := e.sortOf(st.Elem())
			old := e.heapGet(pre, key, srt)
			nh := e.fresh("H_"+sanitize(key), "(Array Ref "+srt+")")
			// cells of the result: first len(s) from s, then from t; everything else unchanged
			k := app("-", "(eidx r)", app("soff", rv.T))
			fromS := app("select", old, app("elem", app("sarr", s.T), app("+", app("soff", s.T), k)))
			fromT := app("select", old, app("elem", app("sarr", t.T), app("+", app("soff", t.T), app("-", k, app("slen", s.T)))))
			inRes := and("((_ is elem) r)", app("=", "(ebase r)", app("sarr", rv.T)), app("<=", app("soff", rv.T), "(eidx r)"), app("<", "(eidx r)", app("+", app("soff", rv.T), n)))
			e.assert(fmt.Sprintf("(forall ((r Ref)) (! (= (select %s r) (ite %s (ite (< %s (slen %s)) %s %s) (select %s r))) :pattern ((select %s r))))",
				nh, inRes, k, s.T, fromS, fromT, old, nh))
			h.m[key] = nh
		}
	} else if e.token && isByteSlice(c.Args[0].Type()) {
		// token mode: only cells of the target's backing array may change; slice contents are tracked in $bytes
		e.heapGet(h, "T:uint8", "Int")
		e.noCouple = true
		e.havocKeyFramed(h, "T:uint8", e.allocCounter(h), []string{e.rootOf(app("sarr", s.T))})
		e.noCouple = false
	} else {
		for _, k := range e.w.keysOfType(st.Elem()) {
			e.havocKey(h, k)
		}
	}
}

// ---------------------------------------------------------------------------------------------
// frame obligations (C08): byte cells may only be written in memory allocated during this call,
// unless the contract declares the written parameter with `opt writes <param>`.

// frameAll: the function's contract says `opt frame-all 1`: every store, in-place append and callee write must target
// memory allocated during this call (class `framewrite`). In return the function counts as writing nothing that existed
// before it was called (the syntactic write analysis is overridden for it).
func (e *Enc) frameAll() bool { return e.ct != nil && e.ct.Opts["frame-all"] != "" }

// frameKey: the contract lists heap key k under `opt frame-keys`: stores to k in this function are proved (class
// framewrite) to hit fresh memory only, and in return they are not counted as writes to pre-existing memory.
func (e *Enc) frameKey(k string) bool {
	if e.ct == nil {
		return false
	}
	for _, x := range strings.Fields(e.ct.Opts["frame-keys"]) {
		if x == k {
			return true
		}
	}
	return false
}

func (e *Enc) frameCheck(st *ssa.Store, addr string) {
	t := st.Addr.Type().Underlying().(*types.Pointer).Elem()
	if !e.frameAll() && typeKey(t) != "uint8" {
		for _, k := range e.w.storeKey(st.Addr) {
			if e.frameKey(k) && !isLocalNonEscaping(st.Addr) {
				e.oblige("framewrite", descOf(e.exprText(st.Addr, st)), "", st.Pos(), e.guardGoal(app(">", e.rootOf(addr), e.allocCounter(e.entryHeap))))
				return
			}
		}
	}
	if e.frameAll() && typeKey(t) != "uint8" {
		if isLocalNonEscaping(st.Addr) {
			return
		}
		e.oblige("framewrite", descOf(e.exprText(st.Addr, st)), "", st.Pos(), e.guardGoal(app(">", e.rootOf(addr), e.allocCounter(e.entryHeap))))
		return
	}
	if typeKey(t) != "uint8" {
		return
	}
	if _, isField := st.Addr.(*ssa.FieldAddr); isField {
		return
	}
	if isLocalNonEscaping(st.Addr) {
		return
	}
	if e.declaredWritable(st.Addr) {
		return
	}
	e.oblige("bytewrite", descOf(e.exprText(st.Addr, st)), "", st.Pos(), e.guardGoal(app(">", e.rootOf(addr), e.allocCounter(e.entryHeap))))
}

func (e *Enc) byteWriteCheck(ins ssa.Instruction, dstV ssa.Value, dst Val, what string, when string) {
	st, ok := under(dstV.Type()).(*types.Slice)
	if ok && e.frameAll() && typeKey(st.Elem()) != "uint8" {
		goal := implies(when, app(">", e.rootOf(app("sarr", dst.T)), e.allocCounter(e.entryHeap)))
		e.oblige("framewrite", what+":"+descOf(e.exprText(dstV, ins)), "", ins.Pos(), e.guardGoal(goal))
		return
	}
	if !ok || typeKey(st.Elem()) != "uint8" {
		return
	}
	if e.declaredWritable(dstV) {
		return
	}
	goal := implies(when, app(">", e.rootOf(app("sarr", dst.T)), e.allocCounter(e.entryHeap)))
	e.oblige("bytewrite", what+":"+descOf(e.exprText(dstV, ins)), "", ins.Pos(), e.guardGoal(goal))
}

// declaredWritable: the written memory derives from a parameter the contract lists under `opt writes`.
func (e *Enc) declaredWritable(v ssa.Value) bool {
	if e.ct == nil {
		return false
	}
	wr := e.ct.Opts["writes"]
	if wr == "" {
		return false
	}
	allowed := map[string]bool{}
	for _, n := range strings.Fields(wr) {
		allowed[n] = true
	}
	for depth := 0; depth < 8; depth++ {
		switch x := v.(type) {
		case *ssa.Parameter:
			return allowed[x.Name()]
		case *ssa.IndexAddr:
			v = x.X
		case *ssa.Slice:
			v = x.X
		case *ssa.ChangeType:
			v = x.X
		case *ssa.UnOp:
			if x.Op == token.MUL {
				v = x.X
			} else {
				return false
			}
		default:
			return false
		}
	}
	return false
}

// ---------------------------------------------------------------------------------------------
// lock-set obligations (C18)

func (e *Enc) guardFor(addrV ssa.Value) (lockAddr string, ok bool) {
	fa, isF := addrV.(*ssa.FieldAddr)
	if !isF {
		return "", false
	}
	st, name := structOf(fa.X.Type())
	if st == nil {
		return "", false
	}
	k := name + "." + st.Field(fa.Field).Name()
	for _, g := range e.cs.Guarded {
		if g.Field == k {
			for i := 0; i < st.NumFields(); i++ {
				if st.Field(i).Name() == g.Lock {
					return app("emb", e.val(fa.X).T, ilit(int64(i))), true
				}
			}
		}
	}
	return "", false
}

// guardedValue: v was loaded from a guarded field (a map reference); operations on the map need the lock too.
func (e *Enc) guardedValue(v ssa.Value) (string, bool) {
	u, ok := v.(*ssa.UnOp)
	if !ok || u.Op != token.MUL {
		return "", false
	}
	return e.guardFor(u.X)
}

func (e *Enc) lockCheckMap(m ssa.Value, write bool, pos token.Pos) {
	la, ok := e.guardedValue(m)
	if !ok {
		return
	}
	if e.ct != nil && e.ct.Opts["constructor"] != "" {
		return
	}
	held := app("select", e.heapGet(e.cur, "$lock", "Int"), la)
	goal := app(">=", held, "1")
	kind := "mapread"
	if write {
		goal = app("=", held, "2")
		kind = "mapwrite"
	}
	e.usedLock = true
	e.oblige("lock", kind+":"+descOf(e.exprText(m, nil)), "", pos, e.guardGoal(goal))
}

func (e *Enc) lockCheck(addrV ssa.Value, write bool, pos token.Pos) {
	la, ok := e.guardFor(addrV)
	if !ok {
		return
	}
	if e.ct != nil && e.ct.Opts["constructor"] != "" {
		return
	}
	held := app("select", e.heapGet(e.cur, "$lock", "Int"), la)
	goal := app(">=", held, "1")
	kind := "read"
	if write {
		goal = app("=", held, "2")
		kind = "write"
	}
	e.usedLock = true
	e.oblige("lock", kind+":"+descOf(e.exprText(addrV, nil)), "", pos, e.guardGoal(goal))
}

func (e *Enc) lockExit(r *ssa.Return) {
	if !e.usedLock {
		return
	}
	e.oblige("lock", "released-at-exit", "", r.Pos(), e.guardGoal(app("=", e.heapGet(e.cur, "$lock", "Int"), e.heapGet(e.entryHeap, "$lock", "Int"))))
}

// havocUnionAt: like havocCallWritesAt for a set of possible callees.
func (e *Enc) havocUnionAt(h *Heap, writes map[string]bool, callees []*ssa.Function, args []Val, apre string) {
	if writes["*"] {
		e.havocAll(h)
		return
	}
	var keys []string
	for k := range writes {
		keys = append(keys, k)
	}
	sort.Strings(keys)
	for _, k := range keys {
		other := false
		pset := map[int]bool{}
		for _, c := range callees {
			if wc := e.w.WE[c][k]; wc != nil {
				if wc.other {
					other = true
				}
				for i := range wc.params {
					pset[i] = true
				}
			}
		}
		if ghostPlain(k) || other {
			e.havocKey(h, k)
			continue
		}
		var except []string
		bad := false
		for i := range pset {
			if i >= len(args) {
				bad = true
				break
			}
			switch args[i].S {
			case "Slice":
				except = append(except, e.rootOf(app("sarr", args[i].T)))
			case "Ref":
				except = append(except, e.rootOf(args[i].T))
			default:
				bad = true
			}
		}
		if bad {
			e.havocKey(h, k)
			continue
		}
		if _, known := e.heapSort[k]; !known {
			if srt, ok := e.w.keySort(e, k); ok {
				e.heapGet(h, k, srt)
			}
		}
		sort.Strings(except)
		e.havocKeyFramed(h, k, apre, except)
	}
}

// throughIface strips interface boxing.
func throughIface(v ssa.Value) ssa.Value {
	for {
		switch x := v.(type) {
		case *ssa.MakeInterface:
			v = x.X
		case *ssa.ChangeInterface:
			v = x.X
		case *ssa.ChangeType:
			v = x.X
		default:
			return v
		}
	}
}

// sharedStateChecks (property C18):
//  - a value loaded from a lock-guarded field (the map itself) may be handed to a call only while the lock is held;
//  - an object reachable from a package-level variable must not be handed to code that may mutate it (outside package
//    initialisers): receivers of interface methods other than Error/String, receivers of math/big mutators, pointer
//    arguments a library callee writes through, pointer/interface arguments of unknown externals.
func (e *Enc) sharedStateChecks(ins ssa.Instruction, c *ssa.CallCommon) {
	if _, isB := c.Value.(*ssa.Builtin); isB {
		return
	}
	isInit := e.fn.Name() == "init" && e.fn.Synthetic != ""
	var argVals []ssa.Value
	if c.IsInvoke() {
		argVals = append(argVals, c.Value)
	}
	argVals = append(argVals, c.Args...)
	callee := c.StaticCallee()
	for i, a := range argVals {
		root := throughIface(a)
		// guarded map / pointer passed on
		if la, ok := e.guardedValue(root); ok && (e.ct == nil || e.ct.Opts["constructor"] == "") {
			held := app("select", e.heapGet(e.cur, "$lock", "Int"), la)
			e.usedLock = true
			e.oblige("lock", "arg:"+descOf(e.exprText(root, ins)), "", ins.Pos(), e.guardGoal(app(">=", held, "1")))
		}
		if isInit {
			continue
		}
		ld, ok := root.(*ssa.UnOp)
		if !ok || ld.Op != token.MUL {
			continue
		}
		g, ok := ld.X.(*ssa.Global)
		if !ok {
			continue
		}
		switch under(g.Type().(*types.Pointer).Elem()).(type) {
		case *types.Pointer, *types.Interface, *types.Map, *types.Slice:
		default:
			continue
		}
		mayMutate := false
		switch {
		case c.IsInvoke():
			if i == 0 && c.Method.Name() != "Error" && c.Method.Name() != "String" {
				mayMutate = true
			}
		case callee == nil:
			mayMutate = true
		default:
			if we, isLib := e.w.WE[callee]; isLib {
				for _, wc := range we {
					if wc.params[i] {
						mayMutate = true
					}
				}
			} else {
				n := callee.String()
				pk := ""
				if callee.Pkg != nil {
					pk = callee.Pkg.Pkg.Path()
				} else if callee.Object() != nil && callee.Object().Pkg() != nil {
					pk = callee.Object().Pkg().Path()
				}
				switch {
				case strings.HasPrefix(n, "(*math/big.Int)."):
					ws := e.w.externalWrites(callee)
					mayMutate = i == 0 && ws["$big"]
				case pk == "fmt" || pk == "errors" || pk == "github.com/pkg/errors" || pk == "bytes" || pk == "strings" || pk == "encoding/hex" || pk == "regexp":
					// read-only uses (a *regexp.Regexp is documented safe for concurrent use)
				default:
					mayMutate = true
				}
			}
		}
		if mayMutate {
			e.oblige("globalshare", descOf(g.Name()), "", ins.Pos(), not(e.reach[e.curBlock]))
		}
	}
}
