package main

import (
	"fmt"
	"go/types"
	"math/big"
	"regexp"
	"strings"
)

// Val is an SMT term with its sort.
type Val struct {
	T string
	S string
}

func app(op string, args ...string) string {
	if len(args) == 0 {
		return op
	}
	return "(" + op + " " + strings.Join(args, " ") + ")"
}

func and(args ...string) string {
	var a []string
	for _, x := range args {
		if x == "true" || x == "" {
			continue
		}
		if x == "false" {
			return "false"
		}
		a = append(a, x)
	}
	switch len(a) {
	case 0:
		return "true"
	case 1:
		return a[0]
	}
	return app("and", a...)
}

func or(args ...string) string {
	var a []string
	for _, x := range args {
		if x == "false" || x == "" {
			continue
		}
		if x == "true" {
			return "true"
		}
		a = append(a, x)
	}
	switch len(a) {
	case 0:
		return "false"
	case 1:
		return a[0]
	}
	return app("or", a...)
}

func not(x string) string {
	switch x {
	case "true":
		return "false"
	case "false":
		return "true"
	}
	return app("not", x)
}

func implies(a, b string) string {
	if a == "true" {
		return b
	}
	if b == "true" || a == "false" {
		return "true"
	}
	return app("=>", a, b)
}

func intLit(n *big.Int) string {
	if n.Sign() < 0 {
		return "(- " + new(big.Int).Neg(n).String() + ")"
	}
	return n.String()
}

func ilit(n int64) string { return intLit(big.NewInt(n)) }

func pow2(n uint) *big.Int { return new(big.Int).Lsh(big.NewInt(1), n) }

var identRe = regexp.MustCompile(`[^A-Za-z0-9_]`)

func sanitize(s string) string { return identRe.ReplaceAllString(s, "_") }

// intRange returns the inclusive range of an integer type; ok=false for non-integers.
func intRange(t types.Type) (lo, hi *big.Int, ok bool) {
	b, isB := under(t).(*types.Basic)
	if !isB || b.Info()&types.IsInteger == 0 {
		return nil, nil, false
	}
	bits, signed := uint(64), true
	switch b.Kind() {
	case types.Int8:
		bits = 8
	case types.Int16:
		bits = 16
	case types.Int32:
		bits = 32
	case types.Int64, types.Int, types.UntypedInt, types.UntypedRune:
		bits = 64
	case types.Uint8:
		bits, signed = 8, false
	case types.Uint16:
		bits, signed = 16, false
	case types.Uint32:
		bits, signed = 32, false
	case types.Uint64, types.Uint, types.Uintptr:
		bits, signed = 64, false
	}
	if signed {
		lo = new(big.Int).Neg(pow2(bits - 1))
		hi = new(big.Int).Sub(pow2(bits-1), big.NewInt(1))
	} else {
		lo = big.NewInt(0)
		hi = new(big.Int).Sub(pow2(bits), big.NewInt(1))
	}
	return lo, hi, true
}

func intBits(t types.Type) (uint, bool) {
	lo, hi, ok := intRange(t)
	if !ok {
		return 0, false
	}
	n := new(big.Int).Sub(hi, lo)
	return uint(n.BitLen()), lo.Sign() < 0
}

// wrapTo renders Go's wrap-around of mathematical integer x into type t.
func wrapTo(x string, t types.Type) string {
	lo, hi, ok := intRange(t)
	if !ok {
		return x
	}
	bits, signed := intBits(t)
	m := pow2(bits).String()
	var slow string
	if signed {
		h := pow2(bits - 1).String()
		slow = fmt.Sprintf("(- (mod (+ %s %s) %s) %s)", x, h, m, h)
	} else {
		slow = fmt.Sprintf("(mod %s %s)", x, m)
	}
	return fmt.Sprintf("(ite (and (<= %s %s) (<= %s %s)) %s %s)", intLit(lo), x, x, intLit(hi), x, slow)
}

func inRange(x string, t types.Type) string {
	lo, hi, ok := intRange(t)
	if !ok {
		return "true"
	}
	return fmt.Sprintf("(and (<= %s %s) (<= %s %s))", intLit(lo), x, x, intLit(hi))
}

const preludeSMT = `(set-option :produce-models true)
(set-logic ALL)
(declare-datatypes ((Ref 0)) (((nil) (obj (oid Int)) (emb (epar Ref) (efld Int)) (elem (ebase Ref) (eidx Int)))))
(declare-datatypes ((Slice 0)) (((mkslice (sarr Ref) (soff Int) (slen Int) (scap Int)))))
(declare-sort Str 0)
(declare-fun strlen (Str) Int)
(declare-fun strat (Str Int) Int)
(declare-const emptystr Str)
(assert (= (strlen emptystr) 0))
(declare-fun rootid (Ref) Int)
(assert (= (rootid nil) 0))
(declare-fun dyntype (Ref) Int)
(declare-fun ptag (Ref) Int)
(declare-fun fnid (Ref) Int)
(declare-fun fnrecv (Ref) Ref)
(declare-fun unboxRef (Ref) Ref)
(declare-fun unboxInt (Ref) Int)
(declare-fun maplen (Ref) Int)
(declare-fun bitand (Int Int) Int)
(declare-fun bitor (Int Int) Int)
(declare-fun bitxor (Int Int) Int)
(declare-fun bitandnot (Int Int) Int)
(declare-fun shl (Int Int) Int)
(declare-fun shr (Int Int) Int)
(define-fun nilslice () Slice (mkslice nil 0 0 0))
(define-fun wfslice ((s Slice)) Bool (and (<= 0 (soff s)) (<= 0 (slen s)) (<= (slen s) (scap s)) (<= (+ (soff s) (scap s)) 1099511627776) (=> (= (sarr s) nil) (= (scap s) 0))))
`
