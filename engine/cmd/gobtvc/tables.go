package main

import (
	"fmt"
	"go/token"
	"go/types"
	"strings"

	"golang.org/x/tools/go/ssa"
	"golang.org/x/tools/go/ssa/ssautil"
)

// Constant tables: package-level arrays of structs (opcodeArray) that are filled once by the package initialiser with
// constants and afterwards only read (every use outside init is an index expression that is loaded from, never stored
// through, never passed on). Reads of such a table do not go through the symbolic heap: the value is the table entry,
// given exactly as an if-then-else chain over the index. The table text is re-extracted from the init SSA on every run.

type constTable struct {
	g       *ssa.Global
	n       int64
	st      *types.Struct
	elem    types.Type
	entries map[int64]map[int]ssa.Value // index -> field -> constant / function
}

func (w *World) computeConstTables() {
	w.ConstTables = map[*ssa.Global]*constTable{}
	cand := map[*ssa.Global]*constTable{}
	for _, p := range w.Pkgs {
		for _, m := range p.Members {
			g, ok := m.(*ssa.Global)
			if !ok {
				continue
			}
			at, ok := g.Type().(*types.Pointer).Elem().Underlying().(*types.Array)
			if !ok {
				continue
			}
			st, ok := at.Elem().Underlying().(*types.Struct)
			if !ok {
				continue
			}
			cand[g] = &constTable{g: g, n: at.Len(), st: st, elem: at.Elem(), entries: map[int64]map[int]ssa.Value{}}
		}
	}
	bad := map[*ssa.Global]bool{}
	for f := range ssautil.AllFunctions(w.Prog) {
		if f.Blocks == nil || f.Pkg == nil || !isLibPkg(f.Pkg.Pkg.Path()) {
			continue
		}
		isInit := f.Name() == "init" && f.Synthetic != ""
		for _, b := range f.Blocks {
			for _, ins := range b.Instrs {
				for _, op := range ins.Operands(nil) {
					g, ok := (*op).(*ssa.Global)
					if !ok || cand[g] == nil {
						continue
					}
					ia, ok := ins.(*ssa.IndexAddr)
					if !ok || ia.X != ssa.Value(g) {
						if _, isDbg := ins.(*ssa.DebugRef); !isDbg {
							bad[g] = true
						}
						continue
					}
					if !w.tableUseOK(cand[g], ia, isInit) {
						bad[g] = true
					}
				}
			}
		}
	}
	for g, t := range cand {
		if !bad[g] {
			w.ConstTables[g] = t
		}
	}
}

// tableUseOK: the element address is used only for field addresses that are loaded (outside init) or stored with a
// constant (inside init), or for a load of the whole element.
func (w *World) tableUseOK(t *constTable, ia *ssa.IndexAddr, isInit bool) bool {
	if ia.Referrers() == nil {
		return false
	}
	var idx int64 = -1
	if c, ok := ia.Index.(*ssa.Const); ok && c.Value != nil {
		idx = c.Int64()
	}
	for _, r := range *ia.Referrers() {
		switch u := r.(type) {
		case *ssa.DebugRef:
		case *ssa.UnOp:
			if u.Op != token.MUL {
				return false
			}
		case *ssa.FieldAddr:
			if u.Referrers() == nil {
				return false
			}
			for _, r2 := range *u.Referrers() {
				switch u2 := r2.(type) {
				case *ssa.DebugRef:
				case *ssa.UnOp:
					if u2.Op != token.MUL {
						return false
					}
				case *ssa.Store:
					if !isInit || u2.Addr != ssa.Value(u) || idx < 0 {
						return false
					}
					switch u2.Val.(type) {
					case *ssa.Const, *ssa.Function:
					default:
						return false
					}
					if t.entries[idx] == nil {
						t.entries[idx] = map[int]ssa.Value{}
					}
					t.entries[idx][u.Field] = u2.Val
				default:
					return false
				}
			}
		default:
			return false
		}
	}
	return true
}

// tableField: SMT term of field f of entry idx (a term) of a constant table.
func (e *Enc) tableField(t *constTable, idx string, f int) string {
	ft := t.st.Field(f).Type()
	srt := e.sortOf(ft)
	if srt == "Str" {
		// names are not modelled entry by entry
		return e.fresh("tblstr", "Str")
	}
	zero := e.zero(ft)
	term := zero
	// group equal values to keep the chain short
	for k := t.n - 1; k >= 0; k-- {
		v := zero
		if ent := t.entries[k]; ent != nil && ent[f] != nil {
			v = e.val(ent[f]).T
		}
		if v == term && k != t.n-1 {
			continue
		}
		_ = v
	}
	// straightforward chain (values repeat rarely enough for this not to matter)
	term = zero
	for k := t.n - 1; k >= 0; k-- {
		v := zero
		if ent := t.entries[k]; ent != nil && ent[f] != nil {
			v = e.val(ent[f]).T
		}
		if k == t.n-1 {
			term = v
			continue
		}
		term = fmt.Sprintf("(ite (= %s %d) %s %s)", idx, k, v, term)
	}
	n := e.fresh("tbl_"+sanitize(t.g.Name())+"_"+t.st.Field(f).Name(), srt)
	e.assert(app("=", n, term))
	return n
}

func (e *Enc) tableEntry(t *constTable, idx string) string {
	s := e.structSort(t.elem, t.st)
	var fs []string
	for i := 0; i < t.st.NumFields(); i++ {
		fs = append(fs, e.tableField(t, idx, i))
	}
	e.trustedUsed["constant table "+t.g.Name()+": read as the literal written by the package initialiser (checked init-only and never stored through)"] = true
	return "(mk_" + s + " " + strings.Join(fs, " ") + ")"
}

// tableLoad: if the load reads from a constant table, return its value.
func (e *Enc) tableLoad(x *ssa.UnOp) (string, bool) {
	switch a := x.X.(type) {
	case *ssa.IndexAddr:
		if g, ok := a.X.(*ssa.Global); ok {
			if t := e.w.ConstTables[g]; t != nil {
				return e.tableEntry(t, e.val(a.Index).T), true
			}
		}
	case *ssa.FieldAddr:
		if ia, ok := a.X.(*ssa.IndexAddr); ok {
			if g, ok := ia.X.(*ssa.Global); ok {
				if t := e.w.ConstTables[g]; t != nil {
					e.trustedUsed["constant table "+t.g.Name()+": read as the literal written by the package initialiser (checked init-only and never stored through)"] = true
					return e.tableField(t, e.val(ia.Index).T, a.Field), true
				}
			}
		}
	}
	return "", false
}
