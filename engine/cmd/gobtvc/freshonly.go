package main

import (
	"go/token"
	"go/types"

	"golang.org/x/tools/go/ssa"
	"golang.org/x/tools/go/ssa/ssautil"
)

// Syntactic frame analysis. WritesExisting[f][K] = f (or something it calls) may store into a cell of heap key K that
// existed before f was entered. If K is written by f but not in this set, every such write provably targets memory
// allocated during the call, so a caller may keep what it knows about K-cells that existed before the call.

func valueFresh(v ssa.Value, visiting map[ssa.Value]bool) bool {
	if visiting[v] {
		return true // co-inductive: a cycle of phis/appends over fresh values stays fresh
	}
	switch x := v.(type) {
	case *ssa.Alloc, *ssa.MakeSlice, *ssa.MakeMap, *ssa.MakeClosure, *ssa.MakeInterface, *ssa.MakeChan:
		return true
	case *ssa.Const:
		return true
	case *ssa.FieldAddr:
		return valueFresh(x.X, visiting)
	case *ssa.IndexAddr:
		return valueFresh(x.X, visiting)
	case *ssa.Slice:
		return valueFresh(x.X, visiting)
	case *ssa.ChangeType:
		return valueFresh(x.X, visiting)
	case *ssa.Convert:
		if _, isStr := under(x.X.Type()).(*types.Basic); isStr {
			return true // []byte(string) allocates
		}
		return valueFresh(x.X, visiting)
	case *ssa.Phi:
		visiting[v] = true
		defer delete(visiting, v)
		for _, e := range x.Edges {
			if !valueFresh(e, visiting) {
				return false
			}
		}
		return true
	case *ssa.Call:
		if b, ok := x.Call.Value.(*ssa.Builtin); ok && b.Name() == "append" {
			visiting[v] = true
			defer delete(visiting, v)
			return valueFresh(x.Call.Args[0], visiting)
		}
	}
	return false
}

// loopWritesExisting: heap keys for which some write inside the loop may hit memory that existed at function entry.
func (w *World) blockWritesExisting(blocks map[*ssa.BasicBlock]bool, fn *ssa.Function) map[string]bool {
	out := map[string]bool{}
	for _, b := range fn.Blocks {
		if blocks != nil && !blocks[b] {
			continue
		}
		for _, ins := range b.Instrs {
			w.instrWritesExisting(ins, out)
		}
	}
	return out
}

func (w *World) instrWritesExisting(ins ssa.Instruction, out map[string]bool) {
	add := func(ks []string) {
		for _, k := range ks {
			out[k] = true
		}
	}
	switch x := ins.(type) {
	case *ssa.Store:
		if isLocalNonEscaping(x.Addr) || valueFresh(x.Addr, map[ssa.Value]bool{}) {
			return
		}
		add(w.storeKey(x.Addr))
	case *ssa.MapUpdate:
		out["map"] = true
	case ssa.CallInstruction:
		c := x.Common()
		if c.IsInvoke() {
			for k := range w.invokeWrites(c) {
				out[k] = true
			}
			return
		}
		switch cv := c.Value.(type) {
		case *ssa.Builtin:
			switch cv.Name() {
			case "append", "copy":
				if valueFresh(c.Args[0], map[ssa.Value]bool{}) {
					return
				}
				if st, ok := under(c.Args[0].Type()).(*types.Slice); ok {
					add(w.keysOfType(st.Elem()))
				}
			case "delete":
				out["map"] = true
			}
		case *ssa.Function:
			if cv.Blocks != nil && cv.Pkg != nil && isLibPkg(cv.Pkg.Pkg.Path()) {
				for k := range w.WritesExisting[cv] {
					out[k] = true
				}
				return
			}
			ws := w.externalWrites(cv)
			if ws["T:uint8"] && len(ws) == 1 {
				// byte-writing externals write the buffer argument(s) only
				allFresh := true
				for _, a := range c.Args {
					if st, ok := under(a.Type()).(*types.Slice); ok && typeKey(st.Elem()) == "uint8" {
						if !valueFresh(a, map[ssa.Value]bool{}) {
							allFresh = false
						}
					}
				}
				if allFresh {
					return
				}
			}
			for k := range ws {
				if k[0] != '$' {
					out[k] = true
				}
			}
		case *ssa.MakeClosure:
			if fn, ok := cv.Fn.(*ssa.Function); ok {
				for k := range w.WritesExisting[fn] {
					out[k] = true
				}
			}
		default:
			for k := range w.funcValueWrites(c) {
				out[k] = true
			}
		}
	}
	_ = token.NoPos
}

func (w *World) computeWritesExisting() {
	w.WritesExisting = map[*ssa.Function]map[string]bool{}
	var lib []*ssa.Function
	for f := range ssautil.AllFunctions(w.Prog) {
		if f.Pkg == nil || !isLibPkg(f.Pkg.Pkg.Path()) || f.Blocks == nil {
			continue
		}
		lib = append(lib, f)
		w.WritesExisting[f] = map[string]bool{}
	}
	for changed := true; changed; {
		changed = false
		for _, f := range lib {
			cur := w.blockWritesExisting(nil, f)
			for k := range cur {
				if !w.WritesExisting[f][k] {
					w.WritesExisting[f][k] = true
					changed = true
				}
			}
		}
	}
}
