package main

import (
	"fmt"
	"go/token"
	"os"
	"go/types"
	"sort"
	"strings"

	"golang.org/x/tools/go/ssa"
	"golang.org/x/tools/go/ssa/ssautil"
)

// Syntactic frame analysis.
//
// For every library function f and heap key K, WE[f][K] describes which cells of K that existed BEFORE the call f may
// write: cells rooted at (the allocation of) one of its parameters (`params`), or anything (`other`). A write to
// memory allocated during the call itself is not recorded. Callers use this to keep what they know about cells that
// existed before a call and are not rooted at one of the listed arguments; loop heads use the same classification for
// the loop body. The analysis follows address chains (field/index/slice of a value) but never through loads: a pointer
// loaded from memory is `other`.

type wclass struct {
	other  bool
	params map[int]bool
}

type rootKind int

const (
	rootFresh rootKind = iota // allocated by this function (Alloc, make, literal, append of fresh, string conversion)
	rootParam
	rootOther
)

type rootInfo struct {
	kind  rootKind
	param int
	sites []ssa.Value // for rootFresh: every allocation site the value may derive from (constants contribute none)
}

func classifyRoot(v ssa.Value, fn *ssa.Function, visiting map[ssa.Value]bool) rootInfo {
	if visiting[v] {
		return rootInfo{kind: rootFresh}
	}
	switch x := v.(type) {
	case *ssa.Alloc, *ssa.MakeSlice, *ssa.MakeMap, *ssa.MakeClosure, *ssa.MakeInterface, *ssa.MakeChan:
		return rootInfo{kind: rootFresh, sites: []ssa.Value{v}}
	case *ssa.Const:
		return rootInfo{kind: rootFresh}
	case *ssa.Parameter:
		for i, p := range fn.Params {
			if p == x {
				return rootInfo{kind: rootParam, param: i}
			}
		}
		return rootInfo{kind: rootOther}
	case *ssa.FieldAddr:
		return classifyRoot(x.X, fn, visiting)
	case *ssa.IndexAddr:
		return classifyRoot(x.X, fn, visiting)
	case *ssa.Slice:
		return classifyRoot(x.X, fn, visiting)
	case *ssa.ChangeType:
		return classifyRoot(x.X, fn, visiting)
	case *ssa.Convert:
		if b, isB := under(x.X.Type()).(*types.Basic); isB && b.Info()&types.IsString != 0 {
			return rootInfo{kind: rootFresh, sites: []ssa.Value{v}}
		}
		return classifyRoot(x.X, fn, visiting)
	case *ssa.Phi:
		visiting[v] = true
		defer delete(visiting, v)
		res := rootInfo{kind: rootFresh}
		for _, e := range x.Edges {
			r := classifyRoot(e, fn, visiting)
			if r.kind == rootOther {
				return r
			}
			if r.kind == rootParam {
				if res.kind == rootParam && res.param != r.param {
					return rootInfo{kind: rootOther}
				}
				if res.kind == rootFresh && len(res.sites) > 0 {
					return rootInfo{kind: rootOther} // mixes a parameter with local allocations
				}
				res = r
				continue
			}
			if res.kind == rootParam {
				if len(r.sites) > 0 {
					return rootInfo{kind: rootOther}
				}
				continue
			}
			for _, st := range r.sites {
				dup := false
				for _, o := range res.sites {
					if o == st {
						dup = true
					}
				}
				if !dup {
					res.sites = append(res.sites, st)
				}
			}
		}
		return res
	case *ssa.UnOp:
		// a load from a local variable cell that only this function writes (its address is at most returned): the
		// value is whatever was stored
		a, ok := x.X.(*ssa.Alloc)
		if !ok || x.Op != token.MUL || a.Referrers() == nil {
			return rootInfo{kind: rootOther}
		}
		visiting[v] = true
		defer delete(visiting, v)
		res := rootInfo{kind: rootFresh}
		for _, r := range *a.Referrers() {
			switch u := r.(type) {
			case *ssa.DebugRef, *ssa.Return:
			case *ssa.UnOp:
				if u.Op != token.MUL {
					return rootInfo{kind: rootOther}
				}
			case *ssa.Store:
				if u.Addr != ssa.Value(a) {
					return rootInfo{kind: rootOther}
				}
				sr := classifyRoot(u.Val, fn, visiting)
				if sr.kind != rootFresh {
					return rootInfo{kind: rootOther}
				}
				res.sites = append(res.sites, sr.sites...)
			default:
				return rootInfo{kind: rootOther}
			}
		}
		return res
	case *ssa.Call:
		if c := x.Call.StaticCallee(); c != nil && c.String() == "math/big.NewInt" {
			return rootInfo{kind: rootFresh, sites: []ssa.Value{v}} // a new big.Int
		}
		if c := x.Call.StaticCallee(); c != nil && strings.HasPrefix(c.String(), "(*math/big.Int).") && len(x.Call.Args) > 0 {
			// math/big methods that return *big.Int return their receiver
			if _, isPtr := under(x.Type()).(*types.Pointer); isPtr {
				return classifyRoot(x.Call.Args[0], fn, visiting)
			}
		}
		if b, ok := x.Call.Value.(*ssa.Builtin); ok && b.Name() == "append" {
			visiting[v] = true
			defer delete(visiting, v)
			r := classifyRoot(x.Call.Args[0], fn, visiting)
			if r.kind == rootFresh {
				// result is either the old array or a new one allocated by this append
				r.sites = append(append([]ssa.Value{}, r.sites...), v)
			}
			return r
		}
	}
	return rootInfo{kind: rootOther}
}

// writeEvent: one potential write to pre-existing memory of key K.
type writeEvent struct {
	key  string
	root rootInfo
	at   ssa.Instruction
	arg  ssa.Value // the value whose allocation is written (address or slice); nil if unknown
}

// instrWrites lists the heap writes of one instruction (stores, append/copy, callee effects mapped to arguments).
func (w *World) instrWrites(ins ssa.Instruction, fn *ssa.Function) []writeEvent {
	var out []writeEvent
	add := func(keys []string, v ssa.Value) {
		r := classifyRoot(v, fn, map[ssa.Value]bool{})
		for _, k := range keys {
			out = append(out, writeEvent{key: k, root: r, at: ins, arg: v})
		}
	}
	other := func(keys map[string]bool) {
		for k := range keys {
			if ghostPlain(k) {
				continue
			}
			out = append(out, writeEvent{key: k, root: rootInfo{kind: rootOther}, at: ins})
		}
	}
	switch x := ins.(type) {
	case *ssa.Store:
		if isLocalNonEscaping(x.Addr) {
			return nil
		}
		add(w.storeKey(x.Addr), x.Addr)
	case *ssa.MapUpdate:
		out = append(out, writeEvent{key: "$s:map", root: rootInfo{kind: rootOther}, at: ins})
	case ssa.CallInstruction:
		c := x.Common()
		if c.IsInvoke() {
			if impls, ok := w.ifaceImpls(c); ok {
				// closed-world interface: receiver is argument 0 of each implementation, then the call's arguments
				for _, cv := range impls {
					for k, wc := range w.WE[cv] {
						if wc.other {
							out = append(out, writeEvent{key: k, root: rootInfo{kind: rootOther}, at: ins})
						}
						for i := range wc.params {
							if i == 0 {
								// written through the receiver object: the interface value's payload is unknown
								out = append(out, writeEvent{key: k, root: rootInfo{kind: rootOther}, at: ins})
							} else if i-1 < len(c.Args) {
								add([]string{k}, c.Args[i-1])
							}
						}
					}
				}
				return out
			}
			other(w.invokeWrites(c))
			return out
		}
		switch cv := c.Value.(type) {
		case *ssa.Builtin:
			switch cv.Name() {
			case "append", "copy":
				if st, ok := under(c.Args[0].Type()).(*types.Slice); ok {
					add(w.keysOfType(st.Elem()), c.Args[0])
				}
			case "delete":
				out = append(out, writeEvent{key: "$s:map", root: rootInfo{kind: rootOther}, at: ins})
			}
		case *ssa.Function:
			if we, isLib := w.WE[cv]; isLib {
				for k, wc := range we {
					if wc.other {
						out = append(out, writeEvent{key: k, root: rootInfo{kind: rootOther}, at: ins})
					}
					for i := range wc.params {
						if i < len(c.Args) {
							add([]string{k}, c.Args[i])
						}
					}
				}
				return out
			}
			ws := w.externalWrites(cv)
			delete(ws, "$consumed")
			delete(ws, "$rem")
			if ws["$big"] && len(c.Args) > 0 {
				// math/big mutators write the value of their receiver only
				add([]string{"$big"}, c.Args[0])
				return out
			}
			if ws["T:uint8"] && len(ws) == 1 {
				// byte-writing externals write their byte-slice argument(s) only
				for _, a := range c.Args {
					if st, ok := under(a.Type()).(*types.Slice); ok && typeKey(st.Elem()) == "uint8" {
						add([]string{"T:uint8"}, a)
					}
				}
				return out
			}
			other(ws)
		case *ssa.MakeClosure:
			if f2, ok := cv.Fn.(*ssa.Function); ok {
				if we, isLib := w.WE[f2]; isLib {
					for k, wc := range we {
						if wc.other || len(wc.params) > 0 {
							out = append(out, writeEvent{key: k, root: rootInfo{kind: rootOther}, at: ins})
						}
					}
				}
			}
		default:
			if ts, ok := w.sigTargetsOf(c); ok {
				for _, cv := range ts {
					for k, wc := range w.WE[cv] {
						if wc.other {
							out = append(out, writeEvent{key: k, root: rootInfo{kind: rootOther}, at: ins})
						}
						for i := range wc.params {
							if i < len(c.Args) {
								add([]string{k}, c.Args[i])
							}
						}
					}
				}
				return out
			}
			other(w.funcValueWrites(c))
		}
	}
	return out
}

func (w *World) computeWritesExisting() {
	w.WE = map[*ssa.Function]map[string]*wclass{}
	var lib []*ssa.Function
	for f := range ssautil.AllFunctions(w.Prog) {
		if f.Pkg == nil || !isLibPkg(f.Pkg.Pkg.Path()) || f.Blocks == nil {
			continue
		}
		lib = append(lib, f)
		w.WE[f] = map[string]*wclass{}
	}
	sort.Slice(lib, func(i, j int) bool { return lib[i].String() < lib[j].String() })
	for changed := true; changed; {
		changed = false
		for _, f := range lib {
			if w.FrameAll[f] {
				continue // proves by obligation that it writes nothing that existed before the call (bytes aside)
			}
			for _, b := range f.Blocks {
				for _, ins := range b.Instrs {
					for _, ev := range w.instrWrites(ins, f) {
						if ev.root.kind == rootFresh {
							continue
						}
						if _, isStore := ins.(*ssa.Store); isStore && w.FrameKeys[f][ev.key] {
							continue // proved fresh by a framewrite obligation of this function
						}
						if os.Getenv("GOBTVC_DEBUG_WE") != "" && strings.Contains(funcName(f), os.Getenv("GOBTVC_DEBUG_WE")) && w.WE[f][ev.key] == nil {
							fmt.Fprintf(os.Stderr, "WE %s key=%s kind=%d param=%d at %s: %s\n", funcName(f), ev.key, ev.root.kind, ev.root.param, w.Fset.Position(ev.at.Pos()), ev.at)
						}
						wc := w.WE[f][ev.key]
						if wc == nil {
							wc = &wclass{params: map[int]bool{}}
							w.WE[f][ev.key] = wc
							changed = true
						}
						if ev.root.kind == rootOther && !wc.other {
							wc.other = true
							changed = true
						}
						if ev.root.kind == rootParam && !wc.params[ev.root.param] {
							wc.params[ev.root.param] = true
							changed = true
						}
					}
				}
			}
		}
	}
}

// loopFrame: for the loop body `blocks`, what may be written per key. plain[K]: anything; except[K]: allocations (SSA
// values defined outside the loop) whose cells may be written; keys written only in memory allocated inside the loop
// body (or inside callees) appear in neither.
func (w *World) loopFrame(blocks map[*ssa.BasicBlock]bool, fn *ssa.Function) (plain map[string]bool, except map[string][]ssa.Value) {
	plain = map[string]bool{}
	except = map[string][]ssa.Value{}
	for _, b := range fn.Blocks {
		if !blocks[b] {
			continue
		}
		for _, ins := range b.Instrs {
			for _, ev := range w.instrWrites(ins, fn) {
				if ev.arg == nil {
					if ev.root.kind == rootOther {
						plain[ev.key] = true
					}
					continue
				}
				outs, other := loopRoots(ev.arg, blocks, map[ssa.Value]bool{})
				if other {
					plain[ev.key] = true
					continue
				}
				for _, o := range outs {
					dup := false
					for _, q := range except[ev.key] {
						if q == o {
							dup = true
						}
					}
					if !dup {
						except[ev.key] = append(except[ev.key], o)
					}
				}
			}
		}
	}
	return
}

// loopRoots: the values defined OUTSIDE the loop (blocks) whose allocation a write through v inside the loop may hit.
// The derivation of v is followed through the loop body only (address arithmetic, slicing, append, phis); memory
// allocated inside the body did not exist at loop entry and contributes nothing; a pointer loaded from memory or
// returned by a call inside the body is `other` (no frame).
func loopRoots(v ssa.Value, blocks map[*ssa.BasicBlock]bool, visiting map[ssa.Value]bool) (outs []ssa.Value, other bool) {
	if visiting[v] {
		return nil, false
	}
	switch v.(type) {
	case *ssa.Const:
		return nil, false
	case *ssa.Parameter, *ssa.FreeVar, *ssa.Global:
		return []ssa.Value{v}, false
	}
	ins, isIns := v.(ssa.Instruction)
	if !isIns {
		return nil, true
	}
	if !blocks[ins.Block()] {
		switch v.Type().Underlying().(type) {
		case *types.Pointer, *types.Slice:
			return []ssa.Value{v}, false
		}
		return nil, true
	}
	visiting[v] = true
	defer delete(visiting, v)
	switch x := v.(type) {
	case *ssa.Alloc, *ssa.MakeSlice, *ssa.MakeMap, *ssa.MakeClosure, *ssa.MakeInterface, *ssa.MakeChan:
		return nil, false
	case *ssa.FieldAddr:
		return loopRoots(x.X, blocks, visiting)
	case *ssa.IndexAddr:
		return loopRoots(x.X, blocks, visiting)
	case *ssa.Slice:
		return loopRoots(x.X, blocks, visiting)
	case *ssa.ChangeType:
		return loopRoots(x.X, blocks, visiting)
	case *ssa.Convert:
		if b, isB := under(x.X.Type()).(*types.Basic); isB && b.Info()&types.IsString != 0 {
			return nil, false
		}
		return loopRoots(x.X, blocks, visiting)
	case *ssa.Phi:
		for _, e := range x.Edges {
			o, ot := loopRoots(e, blocks, visiting)
			if ot {
				return nil, true
			}
			outs = append(outs, o...)
		}
		return outs, false
	case *ssa.Call:
		if c := x.Call.StaticCallee(); c != nil && c.String() == "math/big.NewInt" {
			return nil, false // allocated inside the loop body
		}
		if c := x.Call.StaticCallee(); c != nil && strings.HasPrefix(c.String(), "(*math/big.Int).") && len(x.Call.Args) > 0 {
			if _, isPtr := under(x.Type()).(*types.Pointer); isPtr {
				return loopRoots(x.Call.Args[0], blocks, visiting)
			}
		}
		if b, ok := x.Call.Value.(*ssa.Builtin); ok && b.Name() == "append" {
			return loopRoots(x.Call.Args[0], blocks, visiting)
		}
	}
	return nil, true
}

// ghostPlain: ghost keys that are always forgotten wholesale (no frame reasoning); $big takes part in the frame analysis.
func ghostPlain(k string) bool { return strings.HasPrefix(k, "$") && k != "$big" }
