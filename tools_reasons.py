#!/usr/bin/env python3
"""Attach human reasons to unclaimed obligations in baseline/<id>.json from a list of (regex, reason) rules."""
import json,re,sys
pid=sys.argv[1]
rules=json.load(open('/verif/unclaimed_reasons.json')).get(pid,[])
p=f'/verif/baseline/{pid}.json'
b=json.load(open(p))
left=[]
for name in b['unclaimed']:
    for rx,reason in rules:
        if re.search(rx,name):
            b['unclaimed'][name]=reason
            break
    else:
        left.append(name)
json.dump(b,open(p,'w'),indent=1)
print(pid,'unclaimed',len(b['unclaimed']),'without specific reason',len(left))
for n in left[:40]: print('   ',n)
