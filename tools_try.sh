#!/bin/bash
# usage: tools_try.sh file.smt2 '<goal term>'  [timeout]   -- replaces the negated goal of a dumped VC by another one
f=$1; g=$2; t=${3:-10}
tmp=$(mktemp /dev/shm/tryXXXX.smt2)
python3 - "$f" "$g" > $tmp <<'PY'
import sys
lines=open(sys.argv[1]).read().split('\n')
# find last "(assert (not" line
idx=max(i for i,l in enumerate(lines) if l.startswith('(assert (not '))
lines[idx]='(assert (not '+sys.argv[2]+'))'
print('\n'.join(l for l in lines if not l.startswith('(get-model')))
PY
z3-new -T:$t $tmp | head -3
rm -f $tmp
