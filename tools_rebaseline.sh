#!/bin/bash
# re-take the baselines of the given cones (default: all registered) and show what changed against git HEAD
cd /verif
ids=${@:-$(python3 -c "import json;print(' '.join(c['id'] for c in json.load(open('/verif/cones.json'))))")}
for p in $ids; do bin/gobtvc baseline --property $p 2>&1 | tail -1; done
for p in $ids; do python3 - $p <<'PY'
import json,sys,subprocess
p=sys.argv[1]
new=json.load(open(f'/verif/baseline/{p}.json'))['unclaimed']
r=subprocess.run(['git','show',f'HEAD:baseline/{p}.json'],capture_output=True,text=True,cwd='/verif')
old=json.loads(r.stdout)['unclaimed'] if r.returncode==0 else {}
for k in new:
    if k not in old: print(p,' NEW unclaimed:',k,'|',new[k][:70])
for k in old:
    if k not in new: print(p,' now claimed:',k)
PY
done
