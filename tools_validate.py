#!/usr/bin/env python3
# validate MANIFEST.json and evidence files against the schemas (python3-vt has jsonschema)
import json, sys, glob, jsonschema
m = json.load(open('/verif/MANIFEST.json'))
jsonschema.validate(m, json.load(open('/root/.vp/MANIFEST.schema.json')))
es = json.load(open('/root/.vp/EVIDENCE.schema.json'))
for f in sorted(glob.glob('/verif/evidence/*.json')):
    jsonschema.validate(json.load(open(f)), es)
print('manifest ok;', len(m['checks']), 'checks;', len(glob.glob('/verif/evidence/*.json')), 'evidence files valid')
ids = {c['property_id'] for c in m['checks']} | {n['property_id'] for n in m.get('not_applicable', [])}
allp = [json.loads(l)['id'] for l in open('/verif/properties.jsonl')]
print('unaccounted properties:', [p for p in allp if p not in ids])
