package interpreter

// Bounded stand-in for the round-trip clauses of property C13 that are not under contract (decode side):
//  (a) DecodeParts(EncodeParts(items)) == items for lists of 1..3 items with lengths on every push boundary
//      (1, 2, 75, 76, 255, 256, 65535, 65536);
//  (b) Parse then Unparse reproduces the bytes, for every script of length <= 3 over a 24-symbol alphabet of opcodes
//      (push opcodes included; truncated pushes must be rejected by both Parse and DecodeParts) and for scripts built
//      from well-formed pushes of boundary lengths;
//  (c) the two tokenisers (bscript.DecodeParts and the interpreter's parser) agree on push boundaries for those scripts;
//  (d) hex and JSON renderings convert back to the same bytes; ASM of non-data scripts built from non-push opcodes and
//      minimal multi-byte pushes converts back to the same bytes - for four opcode sequences and for EVERY non-push opcode
//      value (0x00, 0x4f..0xff) placed around a 20-byte push.
// BOUNDED: the enumerations above only. Not a proof.

import (
	"bytes"
	"encoding/json"
	"fmt"
	"testing"

	"github.com/libsv/go-bt/v2/bscript"
)

func payload(n int, seed byte) []byte {
	b := make([]byte, n)
	for i := range b {
		b[i] = seed + byte(i*13+1) | 0x20 // never 0..16 or 0x81 as a single byte: keeps ASM pushes unambiguous
	}
	return b
}

func TestBoundedC13Codecs(t *testing.T) {
	lens := []int{1, 2, 75, 76, 255, 256, 65535, 65536}
	n := 0
	// (a)
	var lists [][][]byte
	for _, a := range lens {
		lists = append(lists, [][]byte{payload(a, 1)})
		for _, b := range lens {
			if a > 256 && b > 256 {
				continue
			}
			lists = append(lists, [][]byte{payload(a, 2), payload(b, 3)})
		}
	}
	lists = append(lists, [][]byte{payload(75, 4), payload(76, 5), payload(1, 6)})
	for _, items := range lists {
		enc, err := bscript.EncodeParts(items)
		if err != nil {
			t.Fatalf("EncodeParts: %v", err)
		}
		// shortest form: prefix length
		want := 0
		for _, it := range items {
			switch l := len(it); {
			case l <= 75:
				want += 1 + l
			case l <= 255:
				want += 2 + l
			case l <= 65535:
				want += 3 + l
			default:
				want += 5 + l
			}
		}
		if len(enc) != want {
			t.Fatalf("EncodeParts: %d bytes, shortest form has %d", len(enc), want)
		}
		dec, err := bscript.DecodeParts(enc)
		if err != nil {
			t.Fatalf("DecodeParts(EncodeParts): %v", err)
		}
		if len(dec) != len(items) {
			t.Fatalf("DecodeParts returned %d items, want %d", len(dec), len(items))
		}
		for i := range items {
			if !bytes.Equal(dec[i], items[i]) {
				t.Fatalf("item %d differs after the round trip", i)
			}
		}
		// (b)(c) on the same bytes: parser round trip and agreement on push boundaries
		s := bscript.Script(enc)
		p := &DefaultOpcodeParser{}
		ops, err := p.Parse(&s)
		if err != nil {
			t.Fatalf("Parse: %v", err)
		}
		if len(ops) != len(items) {
			t.Fatalf("parser found %d pushes, DecodeParts %d", len(ops), len(items))
		}
		for i := range ops {
			if !bytes.Equal(ops[i].Data, items[i]) {
				t.Fatalf("tokenisers disagree on push %d", i)
			}
		}
		back, err := p.Unparse(ops)
		if err != nil || !bytes.Equal(*back, enc) {
			t.Fatalf("Unparse(Parse(s)) != s (err %v)", err)
		}
		// (d) hex, JSON, ASM
		h, err := bscript.NewFromHexString(s.String())
		if err != nil || !bytes.Equal(*h, enc) {
			t.Fatalf("hex round trip (err %v)", err)
		}
		js, err := json.Marshal(&s)
		if err != nil {
			t.Fatalf("json: %v", err)
		}
		var s2 bscript.Script
		if err := json.Unmarshal(js, &s2); err != nil || !bytes.Equal(s2, enc) {
			t.Fatalf("JSON round trip (err %v)", err)
		}
		multi := true
		for _, it := range items {
			if len(it) < 2 {
				multi = false
			}
		}
		if multi {
			asm, err := s.ToASM()
			if err != nil {
				t.Fatalf("ToASM: %v", err)
			}
			s3, err := bscript.NewFromASM(asm)
			if err != nil || !bytes.Equal(*s3, enc) {
				t.Fatalf("ASM round trip of minimal multi-byte pushes (err %v)", err)
			}
		}
		n++
	}
	// (b) exhaustive short scripts over an alphabet
	alpha := []byte{0x00, 0x01, 0x02, 0x4b, 0x4c, 0x4d, 0x4e, 0x4f, 0x51, 0x60, 0x61, 0x63, 0x67, 0x68, 0x6a, 0x75, 0x76, 0x87, 0x88, 0xa9, 0xac, 0xae, 0xba, 0xff}
	var rec func(prefix []byte, depth int)
	rec = func(prefix []byte, depth int) {
		if len(prefix) > 0 {
			s := bscript.Script(append([]byte(nil), prefix...))
			p := &DefaultOpcodeParser{}
			ops, perr := p.Parse(&s)
			parts, derr := bscript.DecodeParts(s)
			// a truncated push must be an error for both decoders; OP_RETURN tails are data for the parser only
			hasReturn := bytes.IndexByte(s, 0x6a) >= 0
			if !hasReturn && (perr == nil) != (derr == nil) {
				t.Fatalf("script %x: parser error %v, DecodeParts error %v", []byte(s), perr, derr)
			}
			if perr == nil {
				back, err := p.Unparse(ops)
				if err != nil || !bytes.Equal(*back, s) {
					t.Fatalf("script %x: Unparse(Parse(s)) = %x (err %v)", []byte(s), back, err)
				}
				if !hasReturn && derr == nil && len(parts) != len(ops) {
					t.Fatalf("script %x: tokenisers disagree: %d vs %d items", []byte(s), len(parts), len(ops))
				}
			}
			n++
		}
		if depth == 0 {
			return
		}
		for _, a := range alpha {
			rec(append(prefix, a), depth-1)
		}
	}
	rec(nil, 3)
	// ASM of scripts of non-push opcodes
	for _, ops := range [][]byte{{0x76, 0xa9, 0x88, 0xac}, {0x51, 0x52, 0x93, 0x87}, {0x63, 0x67, 0x68}, {0xae, 0xba}} {
		s := bscript.Script(ops)
		asm, err := s.ToASM()
		if err != nil {
			t.Fatalf("ToASM: %v", err)
		}
		s3, err := bscript.NewFromASM(asm)
		if err != nil || !bytes.Equal(*s3, ops) {
			t.Fatalf("ASM round trip of %x gives %x (err %v)", ops, s3, err)
		}
		n++
	}
	// ASM of every non-push opcode value (0x00, 0x4f..0xff: exhaustive over single opcodes), each twice in a non-data script
	// around a minimal 20-byte push
	for o := 0; o <= 0xff; o++ {
		if o >= 0x01 && o <= 0x4e {
			continue
		}
		s := &bscript.Script{}
		_ = s.AppendOpcodes(bscript.OpDUP, byte(o))
		_ = s.AppendPushData(bytes.Repeat([]byte{0xc3}, 20))
		_ = s.AppendOpcodes(byte(o), bscript.OpEQUALVERIFY)
		asm, err := s.ToASM()
		if err != nil {
			t.Fatalf("opcode 0x%02x: ToASM: %v", o, err)
		}
		s3, err := bscript.NewFromASM(asm)
		if err != nil || !bytes.Equal(*s3, *s) {
			t.Fatalf("opcode 0x%02x: ASM round trip of %x through %q gives %x (err %v)", o, []byte(*s), asm, s3, err)
		}
		n++
	}
	fmt.Printf("bounded C13: %d scripts/lists checked\n", n)
}
