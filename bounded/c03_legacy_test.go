package bt

// Bounded stand-in for property C03 (legacy signature hash): CalcInputPreimageLegacy and CalcInputSignatureHash are
// compared with an independent implementation of the original Satoshi algorithm written from the property statement,
// on every transaction shape with 1..3 inputs and 0..3 outputs (script lengths 0, 1, 25, 252, 253, 300; inputs with and
// without unlocking scripts), every in-range input index and all 128 eight-bit hash types without the FORKID bit.
// BOUNDED: shapes up to 3x3 and six script lengths only. Not a proof.

import (
	"bytes"
	"crypto/sha256"
	"encoding/binary"
	"fmt"
	"testing"

	"github.com/libsv/go-bt/v2/bscript"
	"github.com/libsv/go-bt/v2/sighash"
)

func refVarInt(n uint64) []byte {
	switch {
	case n < 0xfd:
		return []byte{byte(n)}
	case n <= 0xffff:
		b := []byte{0xfd, 0, 0}
		binary.LittleEndian.PutUint16(b[1:], uint16(n))
		return b
	case n <= 0xffffffff:
		b := []byte{0xfe, 0, 0, 0, 0}
		binary.LittleEndian.PutUint32(b[1:], uint32(n))
		return b
	}
	b := make([]byte, 9)
	b[0] = 0xff
	binary.LittleEndian.PutUint64(b[1:], n)
	return b
}

func le32(v uint32) []byte { b := make([]byte, 4); binary.LittleEndian.PutUint32(b, v); return b }
func le64(v uint64) []byte { b := make([]byte, 8); binary.LittleEndian.PutUint64(b, v); return b }
func rev(b []byte) []byte {
	r := make([]byte, len(b))
	for i := range b {
		r[len(b)-1-i] = b[i]
	}
	return r
}

// refLegacyPreimage: the original algorithm. ok=false: SIGHASH_SINGLE without a matching output (hash is the constant 1).
func refLegacyPreimage(tx *Tx, n int, ht byte) (pre []byte, ok bool) {
	base := ht & 0x1f
	acp := ht&0x80 != 0
	if base == 3 && n >= len(tx.Outputs) {
		return nil, false
	}
	var w bytes.Buffer
	w.Write(le32(tx.Version))
	writeIn := func(i int) {
		in := tx.Inputs[i]
		w.Write(rev(in.PreviousTxID()))
		w.Write(le32(in.PreviousTxOutIndex))
		if i == n {
			sc := []byte(*in.PreviousTxScript)
			w.Write(refVarInt(uint64(len(sc))))
			w.Write(sc)
		} else {
			w.Write([]byte{0})
		}
		seq := in.SequenceNumber
		if i != n && (base == 2 || base == 3) {
			seq = 0
		}
		w.Write(le32(seq))
	}
	if acp {
		w.Write(refVarInt(1))
		writeIn(n)
	} else {
		w.Write(refVarInt(uint64(len(tx.Inputs))))
		for i := range tx.Inputs {
			writeIn(i)
		}
	}
	switch base {
	case 2:
		w.Write(refVarInt(0))
	case 3:
		w.Write(refVarInt(uint64(n + 1)))
		for i := 0; i < n; i++ {
			w.Write(le64(0xffffffffffffffff))
			w.Write([]byte{0})
		}
		o := tx.Outputs[n]
		w.Write(le64(o.Satoshis))
		w.Write(refVarInt(uint64(len(*o.LockingScript))))
		w.Write(*o.LockingScript)
	default:
		w.Write(refVarInt(uint64(len(tx.Outputs))))
		for _, o := range tx.Outputs {
			w.Write(le64(o.Satoshis))
			w.Write(refVarInt(uint64(len(*o.LockingScript))))
			w.Write(*o.LockingScript)
		}
	}
	w.Write(le32(tx.LockTime))
	w.Write(le32(uint32(ht)))
	return w.Bytes(), true
}

func mkScript(n int, seed byte) *bscript.Script {
	s := make(bscript.Script, n)
	for i := range s {
		s[i] = seed + byte(i*7)
	}
	return &s
}

func TestBoundedC03LegacyPreimage(t *testing.T) {
	lens := []int{0, 1, 25, 252, 253, 300}
	one := make([]byte, 32)
	one[0] = 1
	checked := 0
	for nin := 1; nin <= 3; nin++ {
		for nout := 0; nout <= 3; nout++ {
			for variant := 0; variant < len(lens); variant++ {
				tx := NewTx()
				tx.Version = 0x01020304 + uint32(variant)
				tx.LockTime = 0xa0b0c0d0 + uint32(nin)
				for i := 0; i < nin; i++ {
					id := make([]byte, 32)
					for k := range id {
						id[k] = byte(17*i + k + variant)
					}
					in := &Input{PreviousTxOutIndex: uint32(5*i + 1), SequenceNumber: 0xfffffff0 + uint32(i), PreviousTxSatoshis: uint64(1000 * (i + 1))}
					if err := in.PreviousTxIDAdd(id); err != nil {
						t.Fatal(err)
					}
					in.PreviousTxScript = mkScript(lens[(variant+i)%len(lens)], byte(i))
					if (variant+i)%2 == 0 {
						in.UnlockingScript = mkScript(lens[(variant+2*i+1)%len(lens)], 0x40)
					}
					tx.Inputs = append(tx.Inputs, in)
				}
				for j := 0; j < nout; j++ {
					tx.Outputs = append(tx.Outputs, &Output{Satoshis: uint64(1)<<uint(10*j+3) + uint64(variant), LockingScript: mkScript(lens[(variant+j+2)%len(lens)], byte(0x80+j))})
				}
				before := tx.ExtendedBytes()
				for n := 0; n < nin; n++ {
					for h := 0; h < 256; h++ {
						if h&0x40 != 0 {
							continue
						}
						ht := byte(h)
						want, ok := refLegacyPreimage(tx, n, ht)
						got, err := tx.CalcInputPreimageLegacy(uint32(n), sighash.Flag(ht))
						if err != nil {
							t.Fatalf("shape %dx%d v%d input %d type %#x: error %v", nin, nout, variant, n, ht, err)
						}
						sh, err := tx.CalcInputSignatureHash(uint32(n), sighash.Flag(ht))
						if err != nil {
							t.Fatalf("shape %dx%d v%d input %d type %#x: sighash error %v", nin, nout, variant, n, ht, err)
						}
						if !ok {
							if !bytes.Equal(sh, one) {
								t.Fatalf("shape %dx%d v%d input %d type %#x: SINGLE without output: hash %x, want 01 00..00", nin, nout, variant, n, ht, sh)
							}
						} else {
							if !bytes.Equal(got, want) {
								t.Fatalf("shape %dx%d v%d input %d type %#x: preimage\n got  %x\n want %x", nin, nout, variant, n, ht, got, want)
							}
							d1 := sha256.Sum256(want)
							d2 := sha256.Sum256(d1[:])
							if !bytes.Equal(sh, d2[:]) {
								t.Fatalf("shape %dx%d v%d input %d type %#x: signature hash is not the double SHA-256 of the preimage", nin, nout, variant, n, ht)
							}
						}
						checked++
					}
				}
				if !bytes.Equal(before, tx.ExtendedBytes()) {
					t.Fatalf("shape %dx%d v%d: the transaction was modified", nin, nout, variant)
				}
			}
		}
	}
	fmt.Printf("bounded C03: %d (shape, input, hash type) cases compared with the reference implementation\n", checked)
}
