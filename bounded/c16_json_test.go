package bt

// Bounded stand-in for the round-trip clauses of property C16 that go through encoding/json (reflection-driven; no contract
// within reach specifies which struct fields it reads and writes):
//  (a) library JSON and node-style JSON of a transaction, and of lists of transactions, unmarshal to a transaction with
//      the same serialisation and id - for 48 transactions: unsigned, partially "signed" and fully "signed" inputs, 1..3
//      inputs, 0..3 outputs, lock times 0, 1, 499999999, 500000000, 2^31, 2^32-1, versions 1, 2, 2^32-1, input sequences
//      and output indices above 2^31, empty / data / P2PKH output scripts;
//  (b) node-style JSON of an output returns the same satoshi amount for every amount in 0..200000 and for decimal-boundary
//      and large values up to 21e14, and the same script bytes;
//  (c) library and node-style JSON of single UTXOs and of UTXO lists with 1..4 distinct elements return, element by
//      element, the same txid, output index, script and amount.
// BOUNDED: the enumerations above only. Not a proof.

import (
	"bytes"
	"encoding/json"
	"testing"

	"github.com/libsv/go-bt/v2/bscript"
)

func c16Script(kind int) *bscript.Script {
	switch kind % 4 {
	case 0:
		s, _ := bscript.NewFromHexString("76a914eb0bd5edba389198e73f8efabddfc61666969ff788ac")
		return s
	case 1:
		s, _ := bscript.NewFromHexString("006a0568656c6c6f")
		return s
	case 2:
		return &bscript.Script{}
	}
	s, _ := bscript.NewFromHexString("2102076ad7c107f82ae973fbdaa1d84532c8d69e3838bcbee1570efe0fa30b3cb25bac")
	return s
}

func c16Txs(t *testing.T) []*Tx {
	lockTimes := []uint32{0, 1, 499999999, 500000000, 1 << 31, 0xffffffff}
	versions := []uint32{1, 2, 0xffffffff}
	var out []*Tx
	n := 0
	for _, lt := range lockTimes {
		for nin := 1; nin <= 3; nin++ {
			for nout := 0; nout <= 3; nout += 1 + nin%2 {
				tx := NewTx()
				tx.LockTime = lt
				tx.Version = versions[n%3]
				for i := 0; i < nin; i++ {
					txid := bytes.Repeat([]byte{byte(0x10*i + n + 1)}, 32)
					vout := uint32(i)
					if (n+i)%3 == 0 {
						vout = 0x80000001
					}
					if err := tx.FromUTXOs(&UTXO{TxID: txid, Vout: vout, LockingScript: c16Script(0), Satoshis: uint64(1000 + i)}); err != nil {
						t.Fatal(err)
					}
					in := tx.Inputs[i]
					if (n+i)%2 == 0 {
						in.SequenceNumber = 0xfffffffe - uint32(i)
					}
					switch (n + i) % 3 {
					case 1: // "signed": some unlocking script
						us, _ := bscript.NewFromHexString("47304402203a" + "00")
						in.UnlockingScript = us
					case 2: // empty, non-nil
						in.UnlockingScript = &bscript.Script{}
					}
				}
				for o := 0; o < nout; o++ {
					tx.AddOutput(&Output{Satoshis: uint64(3 + 57*o + n), LockingScript: c16Script(o + n)})
				}
				out = append(out, tx)
				n++
			}
		}
	}
	return out
}

func TestBoundedC16Tx(t *testing.T) {
	txs := c16Txs(t)
	for k, tx := range txs {
		want := tx.Bytes()
		// library dialect
		bb, err := json.Marshal(tx)
		if err != nil {
			t.Fatalf("tx %d: marshal: %v", k, err)
		}
		var back Tx
		if err := json.Unmarshal(bb, &back); err != nil {
			t.Fatalf("tx %d: unmarshal of its own JSON %s: %v", k, bb, err)
		}
		if !bytes.Equal(back.Bytes(), want) || back.TxID() != tx.TxID() {
			t.Fatalf("tx %d: library JSON round trip changed the transaction:\n %x\n %x", k, want, back.Bytes())
		}
		// node dialect
		bb, err = json.Marshal(tx.NodeJSON())
		if err != nil {
			t.Fatalf("tx %d: node marshal: %v", k, err)
		}
		var nback Tx
		if err := json.Unmarshal(bb, nback.NodeJSON()); err != nil {
			t.Fatalf("tx %d: node unmarshal of %s: %v", k, bb, err)
		}
		if !bytes.Equal(nback.Bytes(), want) {
			t.Fatalf("tx %d: node JSON round trip changed the transaction:\n %x\n %x", k, want, nback.Bytes())
		}
	}
	// lists
	for _, n := range []int{1, 2, 5} {
		list := Txs(txs[:n])
		bb, err := json.Marshal(list)
		if err != nil {
			t.Fatal(err)
		}
		var back Txs
		if err := json.Unmarshal(bb, &back); err != nil {
			t.Fatalf("list of %d: %v", n, err)
		}
		bbn, err := json.Marshal(list.NodeJSON())
		if err != nil {
			t.Fatal(err)
		}
		var nback Txs
		if err := json.Unmarshal(bbn, nback.NodeJSON()); err != nil {
			t.Fatalf("node list of %d: %v", n, err)
		}
		if len(back) != n || len(nback) != n {
			t.Fatalf("list of %d: lengths %d / %d", n, len(back), len(nback))
		}
		for i := range list {
			if !bytes.Equal(back[i].Bytes(), list[i].Bytes()) || !bytes.Equal(nback[i].Bytes(), list[i].Bytes()) {
				t.Fatalf("list of %d: element %d changed", n, i)
			}
		}
	}
	t.Logf("bounded C16 (a): %d transactions", len(txs))
}

func TestBoundedC16Amounts(t *testing.T) {
	amounts := []uint64{99999999, 100000000, 100000001, 123456789, 999999999, 1000000001, 2099999999999999, 2100000000000000, 1234567890123, 99999999999999}
	for a := uint64(0); a <= 200000; a++ {
		amounts = append(amounts, a)
	}
	for _, a := range amounts {
		o := &Output{Satoshis: a, LockingScript: c16Script(int(a))}
		bb, err := json.Marshal(o.NodeJSON())
		if err != nil {
			t.Fatalf("%d: %v", a, err)
		}
		var back Output
		if err := json.Unmarshal(bb, back.NodeJSON()); err != nil {
			t.Fatalf("%d: %v", a, err)
		}
		if back.Satoshis != a {
			t.Fatalf("node output JSON: %d satoshis came back as %d (%s)", a, back.Satoshis, bb)
		}
		if back.LockingScript == nil || !bytes.Equal(*back.LockingScript, *o.LockingScript) {
			t.Fatalf("node output JSON: script changed for amount %d", a)
		}
	}
	t.Logf("bounded C16 (b): %d amounts", len(amounts))
}

func TestBoundedC16UTXOs(t *testing.T) {
	var all UTXOs
	for i := 0; i < 4; i++ {
		vout := uint32(i)
		if i == 2 {
			vout = 0x80000001
		}
		all = append(all, &UTXO{TxID: bytes.Repeat([]byte{byte(0x21 + i)}, 32), Vout: vout, LockingScript: c16Script(i), Satoshis: []uint64{1250000000, 57, 2099999999999999, 3}[i]})
	}
	same := func(what string, i int, want, got *UTXO) {
		if got == nil || !bytes.Equal(got.TxID, want.TxID) || got.Vout != want.Vout || got.Satoshis != want.Satoshis ||
			got.LockingScript == nil || !bytes.Equal(*got.LockingScript, *want.LockingScript) {
			t.Fatalf("%s: element %d came back as %+v, want %+v", what, i, got, want)
		}
	}
	for i, u := range all {
		bb, err := json.Marshal(u)
		if err != nil {
			t.Fatal(err)
		}
		var back UTXO
		if err := json.Unmarshal(bb, &back); err != nil {
			t.Fatalf("utxo %d: %v", i, err)
		}
		same("library utxo", i, u, &back)
		bb, err = json.Marshal(u.NodeJSON())
		if err != nil {
			t.Fatal(err)
		}
		var nback UTXO
		if err := json.Unmarshal(bb, nback.NodeJSON()); err != nil {
			t.Fatalf("node utxo %d: %v", i, err)
		}
		same("node utxo", i, u, &nback)
	}
	for n := 1; n <= 4; n++ {
		list := all[:n]
		bb, err := json.Marshal(list)
		if err != nil {
			t.Fatal(err)
		}
		var back UTXOs
		if err := json.Unmarshal(bb, &back); err != nil {
			t.Fatalf("utxo list %d: %v", n, err)
		}
		bbn, err := json.Marshal(list.NodeJSON())
		if err != nil {
			t.Fatal(err)
		}
		var nback UTXOs
		if err := json.Unmarshal(bbn, nback.NodeJSON()); err != nil {
			t.Fatalf("node utxo list %d: %v", n, err)
		}
		if len(back) != n || len(nback) != n {
			t.Fatalf("utxo list %d: lengths %d / %d", n, len(back), len(nback))
		}
		for i := range list {
			same("library utxo list", i, list[i], back[i])
			same("node utxo list", i, list[i], nback[i])
		}
	}
}
