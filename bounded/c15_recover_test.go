package bscript

// Bounded stand-in for the clauses of property C15 whose functions are not (fully) under contract:
//  (a) recovery from a script: for hashes covering every byte value at every one of the 20 positions (plus all-zero,
//      all-0xff and leading-zero hashes) the script built by NewP2PKHFromPubKeyHash is the canonical 25 bytes, and
//      PublicKeyHash / Addresses / NewAddressFromPublicKeyHash return the same hash and the same address for both
//      networks, the address decodes back (NewAddressFromString) to the same hash, validates (ValidateAddress), and
//      NewP2PKHFromAddress gives the same script;
//  (b) ValidateAddress (whose Base58 decoder a25.set58 is big-number arithmetic outside contract reach) accepts a
//      checksum-correct 25-byte payload exactly for version bytes 0x00 and 0x6f (all 256 version bytes tried), and
//      rejects every single-character substitution of a valid address by another Base58 character, every insertion of a
//      Base58 character, every deletion and
//      every adjacent transposition that changes the string.
// BOUNDED: the enumerations above only. Not a proof.

import (
	"bytes"
	"encoding/hex"
	"testing"

	"github.com/libsv/go-bk/base58"
	"github.com/libsv/go-bk/crypto"
)

func c15Hashes() [][]byte {
	var hs [][]byte
	base := make([]byte, 20)
	for i := range base {
		base[i] = byte(0x11 + i)
	}
	for pos := 0; pos < 20; pos++ {
		for v := 0; v < 256; v++ {
			h := append([]byte{}, base...)
			h[pos] = byte(v)
			hs = append(hs, h)
		}
	}
	hs = append(hs, make([]byte, 20), bytes.Repeat([]byte{0xff}, 20), bytes.Repeat([]byte{0x88}, 20), bytes.Repeat([]byte{0x14}, 20))
	for z := 1; z < 20; z++ {
		h := append([]byte{}, base...)
		for i := 0; i < z; i++ {
			h[i] = 0
		}
		hs = append(hs, h)
	}
	return hs
}

func TestBoundedC15Recover(t *testing.T) {
	n := 0
	for _, h := range c15Hashes() {
		want := append(append([]byte{0x76, 0xa9, 0x14}, h...), 0x88, 0xac)
		s, err := NewP2PKHFromPubKeyHash(h)
		if err != nil || !bytes.Equal(*s, want) {
			t.Fatalf("NewP2PKHFromPubKeyHash(%x) = %x, %v", h, s, err)
		}
		got, err := s.PublicKeyHash()
		if err != nil || !bytes.Equal(got, h) {
			t.Fatalf("PublicKeyHash of script for %x = %x, %v", h, got, err)
		}
		for _, mainnet := range []bool{true, false} {
			a, err := NewAddressFromPublicKeyHash(h, mainnet)
			if err != nil || a.PublicKeyHash != hex.EncodeToString(h) {
				t.Fatalf("NewAddressFromPublicKeyHash(%x,%v) = %+v, %v", h, mainnet, a, err)
			}
			back, err := NewAddressFromString(a.AddressString)
			if err != nil || back.PublicKeyHash != hex.EncodeToString(h) {
				t.Fatalf("NewAddressFromString(%s) = %+v, %v (hash %x)", a.AddressString, back, err, h)
			}
			if ok, err := ValidateAddress(a.AddressString); !ok || err != nil {
				t.Fatalf("ValidateAddress(%s) = %v, %v (hash %x)", a.AddressString, ok, err, h)
			}
			s2, err := NewP2PKHFromAddress(a.AddressString)
			if err != nil || !bytes.Equal(*s2, want) {
				t.Fatalf("NewP2PKHFromAddress(%s) = %x, %v", a.AddressString, s2, err)
			}
			n++
		}
		addrs, err := s.Addresses()
		main, _ := NewAddressFromPublicKeyHash(h, true)
		if err != nil || len(addrs) != 1 || addrs[0] != main.AddressString {
			t.Fatalf("Addresses of script for %x = %v, %v; want [%s]", h, addrs, err, main.AddressString)
		}
	}
	t.Logf("bounded C15 (a): %d hash/network cases", n)
}

func TestBoundedC15Validate(t *testing.T) {
	const alphabet = "123456789ABCDEFGHJKLMNPQRSTUVWXYZabcdefghijkmnopqrstuvwxyz"
	h := []byte{0x8f, 0xe8, 0x0c, 0x75, 0xc9, 0x56, 0x0e, 0x8b, 0x56, 0xed, 0x64, 0xea, 0x3c, 0x26, 0xe1, 0x8d, 0x2c, 0x52, 0x21, 0x1d}
	n := 0
	// every version byte, correct checksum
	for v := 0; v < 256; v++ {
		p := append([]byte{byte(v)}, h...)
		ck := crypto.Sha256d(p)
		s := base58.Encode(append(p, ck[:4]...))
		ok, _ := ValidateAddress(s)
		if want := v == 0 || v == 0x6f; ok != want {
			t.Fatalf("ValidateAddress(%s) (version %#x, correct checksum) = %v, want %v", s, v, ok, want)
		}
		n++
	}
	// mutations of valid addresses
	for _, mainnet := range []bool{true, false} {
		for _, hh := range [][]byte{h, make([]byte, 20), append([]byte{0, 0, 0}, h[3:]...)} {
			a, _ := NewAddressFromPublicKeyHash(hh, mainnet)
			s := a.AddressString
			for i := 0; i < len(s); i++ {
				for _, c := range alphabet {
					if byte(c) == s[i] {
						continue
					}
					m := s[:i] + string(c) + s[i+1:]
					if ok, _ := ValidateAddress(m); ok {
						t.Fatalf("ValidateAddress accepts %s (substitution at %d of %s)", m, i, s)
					}
					n++
				}
				for _, c := range alphabet {
					ins := s[:i] + string(c) + s[i:]
					if ok, _ := ValidateAddress(ins); ok {
						t.Fatalf("ValidateAddress accepts %s (insertion of %c at %d of %s)", ins, c, i, s)
					}
					n++
				}
				d := s[:i] + s[i+1:]
				if ok, _ := ValidateAddress(d); ok && d != s {
					t.Fatalf("ValidateAddress accepts %s (deletion at %d of %s)", d, i, s)
				}
				if i+1 < len(s) && s[i] != s[i+1] {
					tr := s[:i] + string(s[i+1]) + string(s[i]) + s[i+2:]
					if ok, _ := ValidateAddress(tr); ok {
						t.Fatalf("ValidateAddress accepts %s (transposition at %d of %s)", tr, i, s)
					}
				}
				n += 2
			}
		}
	}
	t.Logf("bounded C15 (b): %d strings", n)
}
