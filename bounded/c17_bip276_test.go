package bscript

// Bounded stand-in for the decode-side clauses of property C17 (the decoder is a regular expression plus strconv, both
// outside contract reach):
//  (a) DecodeBIP276(EncodeBIP276(x)) returns the same prefix, version, network and data for ALL 65,025 (version,
//      network) pairs in 1..255 x 1..255 (exhaustive), both prefixes, payloads of 1, 2, 20 and 33 bytes;
//  (b) the text has the shape prefix ':' 4 hex digits, hex data, 8 hex digits of checksum, the checksum being the first
//      four bytes of SHA256d of everything before it (which of the two 2-digit fields is version and which is network is
//      decided by the deductive check, not here);
//  (c) every single-character substitution (by a different hex digit or by 'g') in 16 valid encodings is rejected by
//      DecodeBIP276, and ValidateAddress accepts a bitcoin-script string exactly when DecodeBIP276 accepts it.
// BOUNDED: the enumerations above only. Not a proof.

import (
	"bytes"
	"encoding/hex"
	"strings"
	"testing"

	"github.com/libsv/go-bk/crypto"
)

func c17Payload(n int, seed byte) []byte {
	b := make([]byte, n)
	for i := range b {
		b[i] = seed + byte(i*7)
	}
	return b
}

func TestBoundedC17RoundTrip(t *testing.T) {
	n := 0
	for v := 1; v <= 255; v++ {
		for nw := 1; nw <= 255; nw++ {
			prefix := PrefixScript
			if (v+nw)%2 == 1 {
				prefix = PrefixTemplate
			}
			plen := []int{1, 2, 20, 33}[(v*3+nw)%4]
			in := BIP276{Prefix: prefix, Version: v, Network: nw, Data: c17Payload(plen, byte(v^nw))}
			text := EncodeBIP276(in)
			// (b) shape and checksum
			if !strings.HasPrefix(text, prefix+":") {
				t.Fatalf("v=%d n=%d: %q does not start with the prefix and a colon", v, nw, text)
			}
			body := text[len(prefix)+1:]
			if len(body) != 4+2*plen+8 {
				t.Fatalf("v=%d n=%d: body %q has length %d, want %d", v, nw, body, len(body), 4+2*plen+8)
			}
			if _, err := hex.DecodeString(body); err != nil {
				t.Fatalf("v=%d n=%d: body %q is not hex: %v", v, nw, body, err)
			}
			if body[4:4+2*plen] != hex.EncodeToString(in.Data) {
				t.Fatalf("v=%d n=%d: data field %q is not the hex of the payload", v, nw, body[4:4+2*plen])
			}
			ck := crypto.Sha256d([]byte(text[:len(text)-8]))
			if text[len(text)-8:] != hex.EncodeToString(ck[:4]) {
				t.Fatalf("v=%d n=%d: checksum field %q is not SHA256d of the preceding text", v, nw, text[len(text)-8:])
			}
			// (a) round trip
			out, err := DecodeBIP276(text)
			if err != nil {
				t.Fatalf("v=%d n=%d: DecodeBIP276(%q): %v", v, nw, text, err)
			}
			if out.Prefix != in.Prefix || out.Version != in.Version || out.Network != in.Network || !bytes.Equal(out.Data, in.Data) {
				t.Fatalf("v=%d n=%d: round trip of %q gives prefix=%q version=%d network=%d data=%x", v, nw, text, out.Prefix, out.Version, out.Network, out.Data)
			}
			if ok, err := ValidateAddress(text); (prefix == PrefixScript) != ok || (ok && err != nil) {
				t.Fatalf("v=%d n=%d: ValidateAddress(%q) = %v, %v", v, nw, text, ok, err)
			}
			n++
		}
	}
	t.Logf("bounded C17 (a,b): %d (version, network) pairs", n)
}

func TestBoundedC17Corruptions(t *testing.T) {
	const subs = "0123456789abcdefg"
	n := 0
	for k := 0; k < 16; k++ {
		in := BIP276{Prefix: PrefixScript, Version: 1 + k*17%255, Network: 1 + k*29%255, Data: c17Payload(1+k, byte(k))}
		text := EncodeBIP276(in)
		if _, err := DecodeBIP276(text); err != nil {
			t.Fatalf("valid encoding %q rejected: %v", text, err)
		}
		start := len(PrefixScript) + 1
		for i := start; i < len(text); i++ {
			for _, c := range subs {
				if byte(c) == text[i] || strings.EqualFold(string(c), string(text[i])) {
					continue
				}
				m := text[:i] + string(c) + text[i+1:]
				_, err := DecodeBIP276(m)
				if err == nil {
					t.Fatalf("DecodeBIP276 accepts %q (position %d of %q changed to %c)", m, i, text, c)
				}
				ok, _ := ValidateAddress(m)
				if ok {
					t.Fatalf("ValidateAddress accepts %q although DecodeBIP276 rejects it", m)
				}
				n++
			}
		}
	}
	t.Logf("bounded C17 (c): %d corrupted strings", n)
}
