#!/bin/bash
# usage: bounded/run.sh <test-file-in-/verif/bounded> <package dir relative to /repo> <test name regexp>
# Runs a bounded stand-in: the test file is injected into the package of /repo's working tree with `go test -overlay`
# (nothing is written to /repo). Exit 0 iff the test passes.
set -u
f=$1; pkg=$2; run=$3
export GOFLAGS=-mod=mod GOPROXY=off GOSUMDB=off GOTOOLCHAIN=local
out=/verif/out/bounded; mkdir -p $out
ov=$out/overlay_$(basename $f .go).json
target=/repo/$pkg/zz_verif_bounded_$(basename $f)
[ "$pkg" = "." ] && target=/repo/zz_verif_bounded_$(basename $f)
printf '{"Replace": {"%s": "%s"}}\n' "$target" "/verif/bounded/$f" > $ov
cd /repo/$pkg && go test -mod=mod -overlay $ov -vet=off -count=1 -timeout 15m -v -run "$run" . 2>&1 | grep -v "^=== RUN\|^--- PASS" | tail -25
exit ${PIPESTATUS[0]}
