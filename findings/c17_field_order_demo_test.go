package bscript_test

// Demonstration of the C17 known finding on the real code (copy into /repo/bscript and run `go test -run TestC17FieldOrder`):
// EncodeBIP276 writes the NETWORK before the VERSION, whereas BIP276 (and property C17) put the version first.
// The existing test TestEncodeBIP276 ("valid encode (testnet)") expects exactly this output, so the order cannot be
// changed without editing that test.

import (
	"testing"

	"github.com/libsv/go-bt/v2/bscript"
)

func TestC17FieldOrder(t *testing.T) {
	s := bscript.EncodeBIP276(bscript.BIP276{Prefix: bscript.PrefixScript, Version: 1, Network: 2, Data: []byte{0xab}})
	const wantPrefix = "bitcoin-script:0102ab" // version 01, then network 02
	if len(s) < len(wantPrefix) || s[:len(wantPrefix)] != wantPrefix {
		t.Fatalf("EncodeBIP276(version 1, network 2) = %q, want it to start with %q", s, wantPrefix)
	}
}
