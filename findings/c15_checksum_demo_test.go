package bscript

import "testing"

// Demonstration of the C15 finding (before the fix): an address whose Base58Check checksum is wrong was accepted by
// NewAddressFromString and NewP2PKHFromAddress (ValidateAddress rejects it).
func TestFindingC15AddressChecksum(t *testing.T) {
	good := "1E7ucTTWRTahCyViPhxSMor2pj4VGQdFMr"
	if _, err := NewAddressFromString(good); err != nil {
		t.Fatalf("valid address rejected: %v", err)
	}
	bad := "1E7ucTTWRTahCyViPhxSMor2pj4VGQdFMs" // last character changed: checksum no longer matches
	if ok, _ := ValidateAddress(bad); ok {
		t.Fatalf("ValidateAddress accepts the corrupted address")
	}
	if a, err := NewAddressFromString(bad); err == nil {
		t.Errorf("NewAddressFromString accepted an address with a wrong checksum (hash %s)", a.PublicKeyHash)
	}
	if s, err := NewP2PKHFromAddress(bad); err == nil {
		t.Errorf("NewP2PKHFromAddress built a locking script from an address with a wrong checksum: %x", []byte(*s))
	}
}
