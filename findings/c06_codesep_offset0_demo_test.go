package interpreter

// Demonstration of the C06 known finding on the real code (inject into /repo/bscript/interpreter, e.g. with
// `go test -overlay`, and run `go test -run TestC06CodeSeparatorAtOffsetZero`):
// after an OP_CODESEPARATOR executed at offset 0 of a script, thread.subScript (the script code handed to the signature
// hash) still starts at the separator itself instead of at the opcode after it, because lastCodeSep == 0 also encodes
// "no separator seen". For a separator at any other offset k the script code starts at k+1.

import (
	"testing"

	"github.com/libsv/go-bt/v2/bscript"
)

func TestC06CodeSeparatorAtOffsetZero(t *testing.T) {
	for _, k := range []int{0, 1, 2} {
		// k OP_NOPs, then OP_CODESEPARATOR, then OP_1
		raw := make([]byte, 0, k+2)
		for i := 0; i < k; i++ {
			raw = append(raw, bscript.OpNOP)
		}
		raw = append(raw, bscript.OpCODESEPARATOR, bscript.Op1)
		s := bscript.Script(raw)
		p := &DefaultOpcodeParser{}
		parsed, err := p.Parse(&s)
		if err != nil {
			t.Fatal(err)
		}
		th := &thread{scripts: []ParsedScript{parsed}, scriptIdx: 0, scriptOff: k}
		if err := opcodeCodeSeparator(&parsed[k], th); err != nil {
			t.Fatal(err)
		}
		got := th.subScript()
		if want := len(parsed) - (k + 1); len(got) != want {
			t.Errorf("separator at offset %d: script code has %d opcodes, want %d (everything after the separator)", k, len(got), want)
		}
	}
}
