#!/bin/bash
# usage: seed_eval.sh <patch> <property-id>...   -- applies a seeded change to /repo, runs the listed checks, reverts it
p=$(realpath "$1"); shift
cd /repo || exit 2
if [ -n "$(git status --porcelain)" ]; then echo "REFUSING: /repo has uncommitted changes (commit contract edits first)"; exit 4; fi
if ! git apply --check "$p" 2>/dev/null; then echo "PATCH DOES NOT APPLY: $p"; exit 3; fi
git apply "$p"
cd /verif
for id in "$@"; do
  out=$(bin/gobtvc check --property $id 2>&1); rc=$?
  echo "== $id exit=$rc"; echo "$out" | grep -E "VIOLATION|obligation |property |VACUOUS|gobtvc:" | head -8
done
cd /repo && git apply -R "$p" && git status --short | head -3
# the runs above rewrote evidence/<id>.json from a changed tree: put the committed (clean-run) evidence back
for id in "$@"; do git -C /verif checkout -- evidence/$id.json 2>/dev/null; done
