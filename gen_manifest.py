#!/usr/bin/env python3
"""Regenerates MANIFEST.json from cones.json (the per-property cone/meta file) and na.json (not-applicable reasons)."""
import json
cones = json.load(open('/verif/cones.json'))
na = json.load(open('/verif/na.json'))
props = [json.loads(l) for l in open('/verif/properties.jsonl')]
hooks_commits = [l.strip() for l in open('/verif/hook_commits.txt') if l.strip()]
checks = []
claimed = set()
for c in cones:
    if not c.get('registered', True):
        continue
    pid = c['id']
    claimed.add(pid)
    checks.append({
        "property_id": pid,
        "quick_cmd": f"bin/gobtvc check --property {pid} --tier quick",
        "thorough_cmd": f"bin/gobtvc check --property {pid} --tier thorough",
        "evidence_file": f"/verif/evidence/{pid}.json",
        "replay_cmd_template": "bin/gobtvc replay {path}",
        "engine": "gobtvc",
        "level_claimed": {"category": c.get("level", "proof"), "text": c["level_text"], "design_ref": c.get("design_ref", "DESIGN.md section 6 " + pid)},
        "level_note": c["level_note"],
        "technique": c.get("technique", "contract-based deductive verification: weakest-precondition VCs over go/ssa of the real functions, contracts in //@ comment files, discharged by z3/cvc5"),
    })
m = {
    "version": 1,
    "setup_cmd": "cd /verif/engine && GOFLAGS=-mod=mod GOPROXY=off GOSUMDB=off GOTOOLCHAIN=local go build -o /verif/bin/gobtvc ./cmd/gobtvc",
    "hooks": {
        "guard": "verif",
        "enable": "go build tag `verif`: comment-only contracts_verif.go files next to the code (no executable code is added); gobtvc loads /repo with -tags verif",
        "baseline_off_cmd": "cd /repo && go test -mod=mod -json -vet=off -count=1 -timeout 25m ./...",
        "source_commits": hooks_commits,
        "add_only": True,
    },
    "engines": [{"name": "gobtvc", "path": "/verif/engine", "serves_properties": sorted(claimed),
                 "kind_free_text": "own VC generator over go/ssa (x/tools v0.29.0) + contract files + z3 5.1 / z3 4.8 / cvc5 back ends; replay through go test -overlay"}],
    "checks": checks,
    "notes": "See DESIGN.md. Every check reloads /repo's working tree, regenerates all VCs and rewrites its evidence file.",
    "not_applicable": [{"property_id": p["id"], "reason": na.get(p["id"], "not yet claimed in this revision: contracts for this property's functions are still being written (see DESIGN.md build log)")} for p in props if p["id"] not in claimed],
}
json.dump(m, open('/verif/MANIFEST.json', 'w'), indent=1)
print("checks:", sorted(claimed))
