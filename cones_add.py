#!/usr/bin/env python3
# helper: add or replace a cone entry from a JSON file given on the command line
import json,sys
c=json.load(open('/verif/cones.json'))
n=json.load(open(sys.argv[1]))
c=[x for x in c if x['id']!=n['id']]+[n]
c.sort(key=lambda x:x['id'])
json.dump(c,open('/verif/cones.json','w'),indent=1)
